"""Generated bus hierarchies (C01; also the "tree of decoders == one multiplexer" half of C06).

CSR node   := {"t":"dec","aw":A,"align":L,"children":[{"node":N,"name":str|None,"addr":int|None,"align_to":int|None},...]}
            | {"t":"bridge","aw":A,"regs":[[width, "rw"|"r"|"w", offset|None], ...]}      csr.Builder + csr.Bridge, real registers/fields
            | {"t":"evmon","n":events,"align":L}                                            csr.EventMonitor
            | {"t":"gpio","pins":P,"aw":A}                                                  gpio.Peripheral
            | {"t":"mux","aw":A,"regs":[[width, access, offset|None],...],"late":k}          csr.Multiplexer over mock registers (k added late)
WB root    := {"aw":A,"dw":D,"g":G,"align":L,"children":[{"t":"sram","size":S,"name":..,"addr":..}|{"t":"csr","csr_dw":..,"node":N,"name":..}]}
All windows are dense between buses of equal granularity, at implicit addresses or explicit multiples of the window size.
"""
import random
from ..hdl.harness import Refused


class Built:
    def __init__(self):
        self.submodules = []        # (name, component)
        self.counter = 0

    def add(self, comp, kind):
        self.counter += 1
        name = f"{kind}{self.counter}"
        self.submodules.append((name, comp))
        return name


def build_csr(node, dw, built):
    """-> csr bus (Interface) of the subtree"""
    from amaranth_soc import csr, event, gpio
    from amaranth_soc.csr import action
    t = node["t"]
    if t == "dec":
        dec = csr.Decoder(addr_width=node["aw"], data_width=dw, alignment=node.get("align", 0))
        for ch in node["children"]:
            sub = build_csr(ch["node"], dw, built)
            if ch.get("align_to") is not None:
                dec.align_to(ch["align_to"])
            dec.add(sub, name=ch.get("name"), addr=ch.get("addr"))
        built.add(dec, "dec")
        return dec.bus
    if t == "bridge":
        b = csr.Builder(addr_width=node["aw"], data_width=dw)
        for i, (w, acc, off) in enumerate(node["regs"]):
            cls = {"rw": action.RW, "r": action.R, "w": action.W}[acc]
            b.add(f"r{i}", csr.Register(csr.Field(cls, w), access=acc), offset=off)
        br = csr.Bridge(b.as_memory_map())
        built.add(br, "bridge")
        return br.bus
    if t == "mux":
        # a bare csr.Multiplexer over mock registers; with "late" the last registers are added to the still-open map after the
        # multiplexer was constructed (and, with "elab_between", elaborated once)
        from . import mux as _mux
        mx = _mux.build({"dw": dw, "aw": node["aw"], "align": node.get("align", 0), "ov": None, "regs": [[w, acc, off, None] for w, acc, off in node["regs"]],
                         "late": node.get("late", 0), "elab_between": node.get("elab_between", False)})
        built.add(mx, "mux")
        return mx.bus
    if t == "evmon":
        emap = event.EventMap()
        for i in range(node["n"]):
            emap.add(event.Source(path=(f"ev{built.counter}_{i}",)))
        mon = csr.event.EventMonitor(emap, data_width=dw, alignment=node.get("align", 0))
        built.add(mon, "evmon")
        return mon.bus
    if t == "gpio":
        p = gpio.Peripheral(pin_count=node["pins"], addr_width=node["aw"], data_width=dw, input_stages=1)
        built.add(p, "gpio")
        return p.bus
    raise KeyError(t)


def build_csr_root(cfg):
    from amaranth import Module
    built = Built()
    try:
        bus = build_csr(cfg["root"], cfg["dw"], built)
    except (ValueError, TypeError) as e:
        raise Refused(str(e))
    m = Module()
    for name, comp in built.submodules:
        m.submodules[name] = comp
    return m, bus, built


def build_wb_root(cfg):
    from amaranth import Module
    from amaranth_soc import wishbone
    from amaranth_soc.wishbone.sram import WishboneSRAM
    from amaranth_soc.csr.wishbone import WishboneCSRBridge
    built = Built()
    leaves = []
    try:
        dec = wishbone.Decoder(addr_width=cfg["aw"], data_width=cfg["dw"], granularity=cfg["g"], alignment=cfg.get("align", 0))
        for ch in cfg["children"]:
            if ch["t"] == "sram":
                s = WishboneSRAM(size=ch["size"], data_width=cfg["dw"], granularity=cfg["g"], writable=ch.get("writable", True))
                nm = built.add(s, "sram")
                if ch.get("align_to") is not None:
                    dec.align_to(ch["align_to"])
                dec.add(s.wb_bus, name=ch.get("name"), addr=ch.get("addr"))
                leaves.append(("sram", s, nm))
            else:
                csr_bus = build_csr(ch["node"], cfg["g"], built)
                br = WishboneCSRBridge(csr_bus, data_width=cfg["dw"], name=ch.get("bname"))
                nm = built.add(br, "wbcsr")
                if ch.get("align_to") is not None:
                    dec.align_to(ch["align_to"])
                dec.add(br.wb_bus, name=ch.get("name"), addr=ch.get("addr"))
                leaves.append(("csr", br, nm))
        built.add(dec, "wbdec")
    except (ValueError, TypeError) as e:
        raise Refused(str(e))
    m = Module()
    for name, comp in built.submodules:
        m.submodules[name] = comp
    return m, dec, leaves, built


# ---- random generation ------------------------------------------------------------------------------------------------
def gen_csr_leaf(rng, dw, max_aw):
    k = rng.random()
    if k < 0.7:
        aw = rng.randint(2, max(2, min(max_aw, 4)))
        regs = []
        for i in range(rng.randint(1, 3)):
            regs.append([rng.choice([1, dw - 1, dw, dw + 3, 2 * dw]), rng.choice(["rw", "rw", "r", "w"]), None])
        # wide enough for the registers at their natural alignment (generation only)
        need = sum(2 * (1 << max(0, (-(-w // dw) - 1).bit_length())) for w, _, _ in regs)
        aw = max(aw, (need - 1).bit_length())
        return {"t": "bridge", "aw": aw, "regs": regs}, aw
    if k < 0.85:
        n = rng.choice([1, 3, dw + 1, 2 * dw + 1])
        al = rng.choice([0, 1])
        size = -(-n // dw)
        aw = 1 + max((size - 1).bit_length(), al)
        return {"t": "evmon", "n": n, "align": al}, aw
    pins = rng.choice([1, 3])
    return {"t": "gpio", "pins": pins, "aw": 4}, 4


_WIN = [0]


def gen_csr_tree(rng, dw, depth, max_aw):
    """-> (node, aw)"""
    if depth == 0 or rng.random() < 0.25:
        return gen_csr_leaf(rng, dw, max_aw)
    children = []
    total = 0
    align = rng.choice([0, 0, 1, 2])
    for i in range(rng.randint(1, 3)):
        sub, saw = gen_csr_tree(rng, dw, depth - 1, max_aw - 1)
        _WIN[0] += 1          # window names unique over the whole hierarchy (anonymous decoders absorb their children's names)
        children.append({"node": sub, "name": rng.choice([None, f"w{_WIN[0]}"]), "addr": None,
                         "align_to": rng.choice([None, None, saw + 1])})
        total += 2 << max(saw, align, children[-1]["align_to"] or 0)
    aw = max(total - 1, 1).bit_length() + rng.randint(0, 1)
    # anonymous siblings with identical register names would collide: name all but one
    anon = 0
    for ch in children:
        if ch["name"] is None:
            anon += 1
            if anon > 1:
                ch["name"] = f"n{anon}"
    return {"t": "dec", "aw": aw, "align": align, "children": children}, aw


def csr_configs(tier, seed, salt=0):
    rng = random.Random(seed * 7 + salt)
    _WIN[0] = 0
    cfgs = [
        {"dw": 8, "root": {"t": "dec", "aw": 8, "align": 0, "children": [
            {"node": {"t": "bridge", "aw": 2, "regs": [[9, "rw", None]]}, "name": "b3", "addr": None},
            {"node": {"t": "dec", "aw": 6, "align": 1, "children": [
                {"node": {"t": "bridge", "aw": 4, "regs": [[8, "rw", None], [20, "rw", None], [12, "r", None]]}, "name": "b1", "addr": None},
                {"node": {"t": "bridge", "aw": 4, "regs": [[32, "rw", None], [1, "r", None]]}, "name": None, "addr": None}]},
             "name": "mid", "addr": 0x40}]}},
        {"dw": 8, "root": {"t": "dec", "aw": 5, "align": 3, "children": [
            {"node": {"t": "bridge", "aw": 1, "regs": [[8, "rw", None], [8, "w", None]]}, "name": "a", "addr": None},
            {"node": {"t": "bridge", "aw": 1, "regs": [[8, "rw", None], [8, "r", None]]}, "name": "b", "addr": None}]}},
        {"dw": 16, "root": {"t": "dec", "aw": 7, "align": 0, "children": [
            {"node": {"t": "evmon", "n": 33, "align": 0}, "name": "irq", "addr": None},
            {"node": {"t": "gpio", "pins": 3, "aw": 4}, "name": "gpio", "addr": None},
            {"node": {"t": "bridge", "aw": 4, "regs": [[40, "rw", 8], [3, "w", None]]}, "name": None, "addr": 0x40}]}},
    ]
    cfgs.append({"dw": 8, "root": {"t": "dec", "aw": 7, "align": 0, "children": [
        {"node": {"t": "mux", "aw": 3, "regs": [[8, "rw", None], [16, "rw", None], [8, "r", None]], "late": 2}, "name": "late", "addr": 0x10},
        {"node": {"t": "mux", "aw": 2, "regs": [[8, "rw", None], [12, "w", None]], "late": 1, "elab_between": True}, "name": None, "addr": None}]}})
    # zero-width registers (a legal minimum-size object: one address, no data bits) between ordinary ones, behind a bridge and a multiplexer
    cfgs.append({"dw": 8, "root": {"t": "dec", "aw": 6, "align": 0, "children": [
        {"node": {"t": "bridge", "aw": 3, "regs": [[8, "rw", None], [0, "rw", None], [8, "r", None], [0, "r", None]]}, "name": "zb", "addr": None},
        {"node": {"t": "mux", "aw": 3, "regs": [[0, "r", None], [12, "rw", None], [0, "w", None]]}, "name": "zm", "addr": None}]}})
    # register banks with 10 address bits and registers beyond 0x100 / 0x300 (address constants wider than a byte)
    cfgs.append({"dw": 8, "root": {"t": "dec", "aw": 12, "align": 0, "children": [
        {"node": {"t": "bridge", "aw": 4, "regs": [[8, "rw", None], [16, "r", None]]}, "name": "bank0", "addr": None},
        {"node": {"t": "bridge", "aw": 10, "regs": [[8, "rw", 0], [8, "rw", 0xff], [8, "r", 0x100], [16, "rw", 0x101], [8, "rw", 0x3fe]]},
         "name": "bank1", "addr": None},
        {"node": {"t": "mux", "aw": 10, "regs": [[8, "r", 0x100], [24, "rw", 0x2fd], [8, "w", 0x3ff]]}, "name": "bank2", "addr": None}]}})
    # windows added in an order that is NOT the address order (explicit addresses, each a multiple of the window size): descending,
    # and interleaved with an implicitly placed one
    cfgs.append({"dw": 8, "root": {"t": "dec", "aw": 7, "align": 0, "children": [
        {"node": {"t": "bridge", "aw": 3, "regs": [[8, "rw", None], [16, "rw", None], [8, "r", 7]]}, "name": "hi", "addr": 0x30},
        {"node": {"t": "bridge", "aw": 4, "regs": [[8, "rw", None], [24, "w", 9]]}, "name": "mid", "addr": 0x10},
        {"node": {"t": "mux", "aw": 2, "regs": [[8, "rw", None], [8, "r", 3]]}, "name": "lo", "addr": 0x04},
        {"node": {"t": "dec", "aw": 4, "align": 0, "children": [
            {"node": {"t": "bridge", "aw": 2, "regs": [[8, "rw", 2]]}, "name": "q", "addr": 0x8},
            {"node": {"t": "bridge", "aw": 3, "regs": [[16, "rw", 5]]}, "name": None, "addr": 0x0}]}, "name": "nest", "addr": 0x20}]}})
    for c in cfgs:
        c["directed"] = True          # hand-written hierarchies are valid by construction: a refusal is a violation (must_accept)
    n = 12 if tier == "quick" else 300
    rng2 = random.Random(seed * 13 + salt)        # a separate stream: the hierarchies themselves stay what they were
    for _ in range(n):
        dw = rng.choice([8, 8, 16, 32])
        node, aw = gen_csr_tree(rng, dw, rng.randint(1, 3), 6)
        if node["t"] != "dec":
            node = {"t": "dec", "aw": aw + 1, "align": 0, "children": [{"node": node, "name": "only", "addr": None}]}
        shuffle_windows(node, rng2)
        cfgs.append({"dw": dw, "root": node})
    return cfgs


def shuffle_windows(node, rng):
    """with probability 1/3 per decoder: give its windows explicit addresses (multiples of the window size, laid out without overlap)
    and add them in a random order, so that insertion order and address order differ"""
    if node.get("t") != "dec":
        return
    for ch in node["children"]:
        shuffle_windows(ch["node"], rng)
    chs = node["children"]
    if (len(chs) < 2 or rng.random() > 1 / 3 or node.get("align") or
            any(ch.get("addr") is not None or ch.get("align_to") is not None or "aw" not in ch["node"] for ch in chs)):
        return
    at = 0
    for ch in sorted(chs, key=lambda ch: -ch["node"]["aw"]):
        ch["addr"] = at
        at += 1 << ch["node"]["aw"]
    if at > (1 << node["aw"]):
        for ch in chs:
            ch["addr"] = None
        return
    rng.shuffle(chs)


def wb_configs(tier, seed):
    rng = random.Random(seed * 11 + 1)
    cfgs = [
        {"aw": 6, "dw": 32, "g": 8, "align": 0, "children": [
            {"t": "sram", "size": 16, "name": "ram"},
            {"t": "csr", "node": {"t": "bridge", "aw": 4, "regs": [[8, "rw", None], [32, "rw", None], [12, "r", None]]}, "name": "csr"},
            {"t": "sram", "size": 8, "name": "rom", "writable": False}]},
        {"aw": 5, "dw": 8, "g": 8, "align": 3, "children": [
            {"t": "sram", "size": 4, "name": "small"},
            {"t": "csr", "node": {"t": "dec", "aw": 3, "align": 0, "children": [
                {"node": {"t": "bridge", "aw": 2, "regs": [[8, "rw", None], [16, "w", None]]}, "name": None, "addr": None}]}, "name": "regs"}]},
        {"aw": 5, "dw": 16, "g": 8, "align": 0, "children": [
            {"t": "csr", "node": {"t": "evmon", "n": 20, "align": 0}, "name": None, "bname": "ev"},
            {"t": "sram", "size": 8, "name": None, "addr": 0x20}]},
    ]
    # a CSR space of exactly ONE Wishbone word (bridge with a zero-width Wishbone address), next to other windows
    cfgs.append({"aw": 4, "dw": 32, "g": 8, "align": 0, "children": [
        {"t": "csr", "node": {"t": "bridge", "aw": 2, "regs": [[32, "rw", None]]}, "name": "one_word"},
        {"t": "sram", "size": 8, "name": "ram"}]})
    cfgs.append({"aw": 3, "dw": 16, "g": 8, "align": 0, "children": [
        {"t": "sram", "size": 4, "name": "ram"},
        {"t": "csr", "node": {"t": "bridge", "aw": 1, "regs": [[8, "rw", None], [8, "r", None]]}, "name": None}]})
    # subordinates added in descending address order (explicit addresses, multiples of the window size)
    cfgs.append({"aw": 7, "dw": 8, "g": 8, "align": 0, "children": [
        {"t": "sram", "size": 16, "name": "a", "addr": 0x20},
        {"t": "sram", "size": 16, "name": "b", "addr": 0x10},
        {"t": "csr", "node": {"t": "bridge", "aw": 3, "regs": [[8, "rw", None], [16, "rw", 5]]}, "name": "c", "addr": 0x08},
        {"t": "sram", "size": 8, "name": None, "addr": 0x00}]})
    cfgs.append({"aw": 5, "dw": 32, "g": 8, "align": 0, "children": [
        {"t": "csr", "node": {"t": "bridge", "aw": 4, "regs": [[32, "rw", None], [8, "rw", 9]]}, "name": "regs", "addr": 0x40},
        {"t": "sram", "size": 32, "name": "ram", "addr": 0x20},
        {"t": "sram", "size": 16, "name": "rom", "writable": False, "addr": 0x00}]})
    for c in cfgs:
        c["directed"] = True
    n = 6 if tier == "quick" else 150
    for _ in range(n):
        dw, g = rng.choice([(8, 8), (16, 8), (32, 8), (32, 16), (16, 16), (32, 32)])
        children = []
        for i in range(rng.randint(1, 3)):
            if rng.random() < 0.5:
                children.append({"t": "sram", "size": rng.choice([2, 4, 8, 16]) * (dw // g), "name": rng.choice([None, f"m{i}"]),
                                 "writable": rng.random() < 0.8})
            else:
                node, aw = gen_csr_tree(rng, g, rng.randint(0, 2), 5)
                children.append({"t": "csr", "node": node, "name": f"c{i}"})
        cfgs.append({"aw": 8, "dw": dw, "g": g, "align": rng.choice([0, 0, 2]), "children": children})
    return cfgs
