from ..hdl.harness import run_configs
from . import tree, csrtarget


def add_to(run, prop):
    cfgs = tree.csr_configs(run.tier, run.seed, salt=6)
    if run.tier == "quick":
        cfgs = cfgs[:8]
    run.require(*(csrtarget.READ_CLAUSES + csrtarget.WRITE_CLAUSES + ["map_agreement"]))
    run.functions["decoder trees over csr.Bridge / EventMonitor / GPIO (flattened)"] = "per generated tree (bounded), generic CSR-target contract at the root with all_resources() addresses"
    run_configs(run, "vf.props.C06tree", cfgs, cosim_cycles=8, must_accept=lambda cfg: bool(cfg.get("directed")))
