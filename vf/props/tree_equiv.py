def add_to(run, prop):
    pass
