"""Runtime contracts (bounded, native) for the VALIDATION performed by add()/setters/constructors: a combination the documented
rules exclude must be refused with ValueError/TypeError, a combination they allow must be accepted.  Shared by C06/C07/C08/C10/C20."""
import itertools, random

ALLF = ["err", "rty", "stall", "lock", "cti", "bte"]


def log2(x):
    return x.bit_length() - 1


def check_wb_decoder_add(rng, n):
    from amaranth_soc import wishbone
    from amaranth_soc.memory import MemoryMap
    bad = []
    for _ in range(n):
        dw = rng.choice([8, 16, 32, 64]); g = rng.choice([x for x in (8, 16, 32, 64) if x <= dw])
        dfeat = [f for f in ALLF if rng.random() < 0.5]
        dec = wishbone.Decoder(addr_width=8, data_width=dw, granularity=g, features=dfeat)
        sdw = rng.choice([8, 16, 32, 64]); sg = rng.choice([x for x in (8, 16, 32, 64) if x <= sdw])
        sfeat = [f for f in ALLF if rng.random() < 0.4]
        sparse = rng.random() < 0.3
        saw = rng.randint(0, 3)
        sb = wishbone.Interface(addr_width=saw, data_width=sdw, granularity=sg, features=sfeat, path=("s",))
        sb.memory_map = MemoryMap(addr_width=max(1, saw + log2(sdw // sg)), data_width=sg, alignment=3)
        must_refuse = (sg > g) or (not sparse and sdw != dw) or (sparse and sg != sdw) or any(f in sfeat and f not in dfeat for f in ("err", "rty", "stall"))
        try:
            dec.add(sb, sparse=sparse); got = "accepted"
        except (ValueError, TypeError):
            got = "refused"
        if must_refuse and got == "accepted":
            bad.append(("accepted although the rules exclude it", dict(dw=dw, g=g, dfeat=dfeat, sdw=sdw, sg=sg, sfeat=sfeat, sparse=sparse)))
        if not must_refuse and got == "refused" and sdw == dw and sg == g and not sparse:
            bad.append(("refused a compatible dense subordinate", dict(dw=dw, g=g, dfeat=dfeat, sfeat=sfeat)))
    try:
        wishbone.Decoder(addr_width=4, data_width=8).add(object()); bad.append("non-interface accepted")
    except TypeError:
        pass
    return bad


def check_arbiter_add(rng, n):
    from amaranth_soc import wishbone
    bad = []
    for _ in range(n):
        dw = rng.choice([8, 16, 32, 64]); g = rng.choice([x for x in (8, 16, 32, 64) if x <= dw]); aw = rng.randint(0, 6)
        afeat = [f for f in ALLF if rng.random() < 0.5]
        arb = wishbone.Arbiter(addr_width=aw, data_width=dw, granularity=g, features=afeat)
        idw = rng.choice([dw, dw, 8, 16, 32, 64]); ig = rng.choice([x for x in (8, 16, 32, 64) if x <= idw]); iaw = rng.choice([aw, aw, aw + 1, 0])
        ifeat = [f for f in ALLF if rng.random() < 0.5]
        it = wishbone.Interface(addr_width=iaw, data_width=idw, granularity=ig, features=ifeat, path=("i",))
        must_refuse = iaw != aw or ig < g or idw != dw or any(f in afeat and f not in ifeat for f in ("err", "rty"))
        try:
            arb.add(it); got = "accepted"
        except (ValueError, TypeError):
            got = "refused"
        if (got == "accepted") == must_refuse:
            bad.append((got, dict(aw=aw, dw=dw, g=g, afeat=afeat, iaw=iaw, idw=idw, ig=ig, ifeat=ifeat)))
    try:
        wishbone.Arbiter(addr_width=4, data_width=8).add(object()); bad.append("non-interface accepted")
    except TypeError:
        pass
    return bad


def check_csr_decoder_add(rng, n):
    from amaranth_soc import csr
    from amaranth_soc.memory import MemoryMap
    bad = []
    for _ in range(n):
        dw = rng.choice([8, 16, 32]); sdw = rng.choice([8, 16, 32])
        dec = csr.Decoder(addr_width=8, data_width=dw)
        sb = csr.Interface(addr_width=3, data_width=sdw, path=("s",)); sb.memory_map = MemoryMap(addr_width=3, data_width=sdw)
        try:
            dec.add(sb); got = "accepted"
        except (ValueError, TypeError):
            got = "refused"
        if (got == "accepted") != (dw == sdw):
            bad.append((got, dw, sdw))
    try:
        csr.Decoder(addr_width=4, data_width=8).add(object()); bad.append("non-interface accepted")
    except TypeError:
        pass
    return bad


def check_memory_map_setters(rng, n):
    """Interface.memory_map setters tie the map's geometry to the bus geometry"""
    from amaranth_soc import csr, wishbone
    from amaranth_soc.memory import MemoryMap
    bad = []
    for _ in range(n):
        aw, dw = rng.randint(1, 6), rng.choice([8, 16, 32])
        maw, mdw = rng.choice([aw, aw, aw + 1, max(1, aw - 1)]), rng.choice([dw, dw, 8, 16])
        bus = csr.Interface(addr_width=aw, data_width=dw, path=("b",))
        try:
            bus.memory_map = MemoryMap(addr_width=maw, data_width=mdw); got = True
        except (ValueError, TypeError):
            got = False
        if got != (maw == aw and mdw == dw):
            bad.append(("csr", aw, dw, maw, mdw, got))
        if got and bus.memory_map.addr_width != aw:
            bad.append(("csr stored map differs",))
        wdw = rng.choice([8, 16, 32, 64]); wg = rng.choice([x for x in (8, 16, 32, 64) if x <= wdw]); waw = rng.randint(0, 5)
        eff = max(1, waw + log2(wdw // wg))
        maw2 = rng.choice([eff, eff, eff + 1, max(1, eff - 1), waw if waw > 0 else 1]); mdw2 = rng.choice([wg, wg, wdw, 8])
        wb = wishbone.Interface(addr_width=waw, data_width=wdw, granularity=wg, path=("w",))
        try:
            wb.memory_map = MemoryMap(addr_width=maw2, data_width=mdw2); got = True
        except (ValueError, TypeError):
            got = False
        if got != (maw2 == eff and mdw2 == wg):
            bad.append(("wishbone", waw, wdw, wg, maw2, mdw2, got))
    for mk in (lambda: csr.Interface(addr_width=2, data_width=8), lambda: wishbone.Interface(addr_width=2, data_width=8)):
        b = mk()
        try:
            b.memory_map; bad.append("memory_map readable before it is set")
        except AttributeError:
            pass
        try:
            b.memory_map = object(); bad.append("non-map accepted")
        except TypeError:
            pass
    return bad


def check_wb_csr_bridge_ctor(rng, n):
    from amaranth_soc import csr
    from amaranth_soc.csr.wishbone import WishboneCSRBridge
    from amaranth_soc.memory import MemoryMap
    bad = []
    for cdw in (8, 16, 32, 64, 12):
        for wdw in (None, 8, 16, 24, 32, 48, 64, 128):
            aw = rng.randint(1, 8)
            try:
                bus = csr.Interface(addr_width=aw, data_width=cdw, path=("c",)); bus.memory_map = MemoryMap(addr_width=aw, data_width=cdw)
            except (ValueError, TypeError):
                continue
            eff = cdw if wdw is None else wdw
            ok = cdw in (8, 16, 32, 64) and eff in (8, 16, 32, 64) and eff >= cdw and (eff // cdw) & (eff // cdw - 1) == 0 and eff % cdw == 0
            try:
                br = WishboneCSRBridge(bus, data_width=wdw); got = True
            except (ValueError, TypeError):
                got = False
            if ok and not got and aw >= log2(eff // cdw):
                bad.append(("refused a valid geometry", cdw, wdw, aw))
            if got and not ok:
                bad.append(("accepted an invalid geometry", cdw, wdw, aw))
            if got:
                r = eff // cdw
                if (br.wb_bus.data_width, br.wb_bus.granularity, br.wb_bus.addr_width) != (eff, cdw, max(0, aw - log2(r))):
                    bad.append(("wishbone geometry", cdw, wdw, aw, br.wb_bus.data_width, br.wb_bus.granularity, br.wb_bus.addr_width))
                wins = list(br.wb_bus.memory_map.windows())
                if len(wins) != 1 or wins[0][0] is not bus.memory_map or wins[0][2][:2] != (0, 1 << aw):
                    bad.append(("published window", cdw, wdw, aw, [w[2] for w in wins]))
    try:
        WishboneCSRBridge(object()); bad.append("non-interface accepted")
    except TypeError:
        pass
    return bad


CHECKS = {"wb_decoder_add": check_wb_decoder_add, "arbiter_add": check_arbiter_add, "csr_decoder_add": check_csr_decoder_add,
          "memory_map_setters": check_memory_map_setters, "wb_csr_bridge_ctor": check_wb_csr_bridge_ctor}


def check_config(ctx, cfg):
    rng = random.Random(cfg["seed"])
    bad = CHECKS[cfg["what"]](rng, cfg["n"])
    clause = "validation:" + cfg["what"]
    ctx.results.append({"name": f"{clause}@{ctx.key}", "clause": clause, "status": "discharged" if not bad else "failed", "time": 0.0,
                        "replay": {"confirmed": True, "how": "native: these calls on the real classes", "detail": str(bad[:3])[:1200]},
                        "cfg": cfg, "known_key": clause, "solver": "native evaluation"})
    ctx.nontrivial = True


def add_to(run, whats):
    from ..hdl.harness import run_configs
    n = 150 if run.tier == "quick" else 3000
    cfgs = [{"what": w, "seed": run.seed * 17 + i, "n": n} for i, w in enumerate(whats)]
    for w in whats:
        run.require("validation:" + w)
    run.bounded_notes.append("validation of add()/setter/constructor arguments: runtime contract over seeded random combinations (bounded)")
    run_configs(run, __name__, cfgs)
