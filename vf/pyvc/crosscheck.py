"""CPython cross-check of the pyvc engine (every run of C02).

For seeded concrete inputs (map state + arguments) the REAL function is executed in CPython; independently, the engine's
symbolic path summaries (computed once, for symbolic inputs) are instantiated with the same concrete values:
  * at least one path must be feasible and predict exactly the real outcome (exception class, return value, cursor,
    frozen flag, list of ranges);
  * no feasible RETURNING path may predict a different return value / post-state.
A disagreement means the engine's model of Python is wrong: exit 3 (engine fault), never a violation.
Uninterpreted facts (validity / availability of names) are left free, so raise-paths that depend only on them stay feasible.
"""
import random
import z3
from .engine import Exec, Path, Dyn, Rng, NONE, pow2, T_NONE, T_INT, T_STR, T_TUPLE, T_COMPONENT, T_OTHER, find_def
from ..common import EngineFault


def concretize_dyn(d, value, ident=None):
    from amaranth.lib import wiring
    if value is None:
        return [d.tag == T_NONE]
    if isinstance(value, bool) or isinstance(value, int):
        return [d.tag == T_INT, d.ival == int(value)]
    if isinstance(value, str):
        return [d.tag == T_STR, d.nonempty == (len(value) > 0)]
    if isinstance(value, tuple):
        return [d.tag == T_TUPLE, d.nonempty == (len(value) > 0)]
    if isinstance(value, wiring.Component):
        return [d.tag == T_COMPONENT, d.ident == (ident if ident is not None else id(value))]
    return [d.tag == T_OTHER, d.ident == (ident if ident is not None else id(value))]


def pow2_table(limit=40):
    return [pow2(k) == (1 << k) for k in range(limit)]


def concretize_map(h, m):
    """constraints fixing the abstract view `h` to the concrete MemoryMap m"""
    v = h["view"]
    keys = m._ranges._keys
    cs = [h["aw"] == m.addr_width, h["dw"] == m.data_width, h["al"] == m.alignment, h["next"] == m._next_addr,
          h["frozen"] == bool(m._frozen), v.n == len(keys)]
    ids = []
    for i, k in enumerate(keys):
        obj = m._ranges._values[k]
        cs += [v.S[i] == k.start, v.E[i] == k.stop, v.T[i] == k.step, v.V[i] == id(obj), v.idx[id(obj)] == i]
        ids.append(id(obj))
        if id(obj) in m._resources:
            cs += [v.isres[id(obj)], z3.Not(v.iswin[id(obj)]), v.rS[id(obj)] == k.start, v.rE[id(obj)] == k.stop]
        else:
            cs += [v.iswin[id(obj)], z3.Not(v.isres[id(obj)]), v.wS[id(obj)] == k.start, v.wE[id(obj)] == k.stop, v.wT[id(obj)] == k.step]
    j = z3.Int("cc_j")
    known = z3.Or(*[j == i for i in ids]) if ids else z3.BoolVal(False)
    cs.append(z3.ForAll([j], z3.Implies(z3.Not(known), z3.And(z3.Not(v.isres[j]), z3.Not(v.iswin[j])))))
    return cs


def observe(m):
    return (m._next_addr, bool(m._frozen), [(k.start, k.stop, k.step) for k in m._ranges._keys])


def random_map(rng, R):
    from amaranth_soc.memory import MemoryMap
    m = MemoryMap(addr_width=rng.randint(1, 6), data_width=rng.choice([8, 16, 32]), alignment=rng.choice([0, 0, 1, 2]))
    for i in range(rng.randint(0, 3)):
        try:
            if rng.random() < 0.7:
                m.add_resource(R(), name=f"r{i}", size=rng.choice([1, 2, 3]), addr=rng.choice([None, None, 0, 4, 8]))
            else:
                w = MemoryMap(addr_width=rng.randint(1, 3), data_width=m.data_width)
                m.add_window(w, name=f"w{i}")
        except ValueError:
            pass
    if rng.random() < 0.2:
        m.align_to(rng.choice([1, 2]))
    if rng.random() < 0.15:
        m.freeze()
    return m


def crosscheck_memory(seed=0, n_inputs=24):
    """-> number of (function, input) pairs cross-checked; raises EngineFault on a disagreement"""
    from amaranth.lib import wiring
    from contracts import memory_c02 as c, memory_model as mm

    class R(wiring.Component):
        def __init__(self):
            super().__init__({})
    rng = random.Random(seed + 4242)
    checked = 0
    skipped = [0]

    def setup(fname, make_args):
        ex = c.base_exec()
        if fname == "_compute_addr_range":
            del ex.contracts["self._compute_addr_range"]
        # callees are represented by their contracts (as in the proofs); their post-conditions pin results down uniquely
        q = Path()
        self_, h = c.fresh_self(q)
        args = make_args(q)
        q.env.update({"self": self_, **args})
        fn = find_def(c.FILE, f"MemoryMap.{fname}")
        outs = ex.run(fn, q)
        return ex, self_, h, args, outs

    specs = {
        "align_to": lambda q: {"alignment": Dyn("alignment")},
        "_compute_addr_range": lambda q: {"addr": Dyn("addr"), "size": Dyn("size"), "step": z3.Int("step"), "alignment": z3.Int("alignment")},
        "add_resource": lambda q: {"resource": Dyn("resource"), "name": Dyn("name"), "size": Dyn("size"), "addr": Dyn("addr"),
                                   "alignment": Dyn("alignment")},
    }
    from .engine import Unsupported
    unsupported = []
    for fname, mk in specs.items():
        try:
            ex, self_, h, args, outs = setup(fname, mk)
        except Unsupported as e_:
            # the function is outside the engine's subset on this tree: nothing to cross-check (the proof side reports it undecided)
            unsupported.append(f"{fname}: {e_}")
            continue
        for _ in range(n_inputs):
            m = random_map(rng, R)
            if fname == "align_to":
                conc = {"alignment": rng.choice([0, 1, 2, 3, -1, None, "x"])}
                call = lambda: m.align_to(conc["alignment"])
            elif fname == "_compute_addr_range":
                conc = {"addr": rng.choice([None, None, 0, 1, 2, 4, 8, 16, -1, "a"]), "size": rng.choice([0, 1, 2, 3, 5, 8, -1, "s"]),
                        "step": rng.choice([1, 1, 2]), "alignment": rng.choice([0, 1, 2, 3])}
                call = lambda: m._compute_addr_range(conc["addr"], conc["size"], conc["step"], alignment=conc["alignment"])
            else:
                res = rng.choice([R(), R(), R(), object(), 5])
                if rng.random() < 0.15 and m._resources:
                    res = next(iter(m._resources.values()))[0]
                conc = {"resource": res, "name": f"n{rng.randrange(10**6)}", "size": rng.choice([0, 1, 2, 3, 5, 8, -1, "s"]),
                        "addr": rng.choice([None, None, 0, 1, 2, 4, 8, 16, -1]), "alignment": rng.choice([None, None, 0, 1, 2, 3, -1])}
                call = lambda: m.add_resource(conc["resource"], name=conc["name"], size=conc["size"], addr=conc["addr"], alignment=conc["alignment"])
            base = concretize_map(h, m) + pow2_table()
            for k, sym in args.items():
                if isinstance(sym, Dyn):
                    base += concretize_dyn(sym, conc[k])
                else:
                    base.append(sym == conc[k])
            before = observe(m)
            try:
                ret = call()
                real = ("return", (ret.start, ret.stop, ret.step) if isinstance(ret, range) else ret)
            except Exception as e:
                real = ("raise", type(e).__name__)
            after = observe(m)
            matched = False
            undecided_paths = 0
            for o in outs:
                s = z3.Solver(); s.set("timeout", 20000)
                s.add(*base); s.add(*o.path.pc)
                r = s.check()
                if r == z3.unsat:
                    continue
                if r != z3.sat:
                    undecided_paths += 1
                    continue           # undecided feasibility: this path cannot be used as evidence either way
                p = o.path
                v1 = mm.view_of(p, self_)
                pred_state = z3.And(ex.getattr(self_, "_next_addr", p, None)[0][0] == after[0],
                                    ex.getattr(self_, "_frozen", p, None)[0][0] == after[1], v1.n == len(after[2]))
                if o.kind == "raise":
                    if real == ("raise", o.exc):
                        matched = True
                    continue
                # returning path: its prediction must be exactly the real outcome
                val = o.value
                if isinstance(val, Rng):
                    eq = z3.And(val.start == real[1][0], val.stop == real[1][1], val.step == real[1][2]) if real[0] == "return" and isinstance(real[1], tuple) and len(real[1]) == 3 else z3.BoolVal(False)
                elif isinstance(val, tuple):
                    eq = z3.And(*[ex.toint(x) == y for x, y in zip(val, real[1])]) if real[0] == "return" and isinstance(real[1], tuple) and len(real[1]) == len(val) else z3.BoolVal(False)
                else:
                    eq = (ex.toint(val) == real[1]) if real[0] == "return" and isinstance(real[1], int) else z3.BoolVal(False)
                s2 = z3.Solver(); s2.set("timeout", 20000)
                s2.add(*base); s2.add(*o.path.pc); s2.add(z3.Not(z3.And(eq, pred_state)))
                r2 = s2.check()
                if r2 == z3.sat and real[0] == "return":
                    raise EngineFault(f"pyvc/CPython disagreement on MemoryMap.{fname}{conc}: real {real} state {after}, "
                                      f"but a feasible engine path predicts something else (model {s2.model()})"[:600])
                if real[0] == "return" and r2 == z3.unsat:
                    matched = True
                if real[0] == "return" and r2 == z3.unknown:
                    undecided_paths += 1
                if real[0] == "raise" and r2 != z3.unknown:
                    # a returning path is feasible although CPython raised: only acceptable if the raise hinges on an
                    # uninterpreted name fact (TypeError/ValueError from Name()/namespace), which stays free here
                    pass
            if not matched and undecided_paths:
                # some path's feasibility / prediction could not be decided within the budget (e.g. a busy machine): this input
                # says nothing either way - it is not counted as cross-checked and never reported as a disagreement
                skipped[0] += 1
                continue
            if not matched:
                raise EngineFault(f"pyvc/CPython disagreement on MemoryMap.{fname}{ {k: repr(v)[:20] for k, v in conc.items()} }: "
                                  f"real outcome {real} (state {before} -> {after}) is predicted by no feasible engine path")
            checked += 1
    crosscheck_memory.skipped = skipped[0]
    return checked
