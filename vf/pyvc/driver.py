"""Discharging pyvc obligations: serialise each obligation to SMT-LIB2, solve in a process pool (z3, then cvc5 for z3's
unknowns), fold results into a Run.  exit-code discipline: sat = refuted (violation, with model), unknown = undecided."""
import os, subprocess, tempfile, time, multiprocessing as mp
import z3
from .engine import to_smt2, Unsupported


class Ob:
    __slots__ = ("fn", "clause", "label", "smt2", "lineno", "expect_sat", "pc", "claim", "axioms", "replay")

    def __init__(self, fn, clause, label, smt2, lineno=None, expect_sat=False, pc=None, claim=None, axioms=None, replay=None):
        self.fn, self.clause, self.label, self.smt2, self.lineno, self.expect_sat = fn, clause, label, smt2, lineno, expect_sat
        self.pc, self.claim, self.axioms, self.replay = pc, claim, axioms, replay


def _solve(args):
    smt2, timeout_ms, want_model = args
    t = time.time()
    s = z3.Solver()
    s.set("timeout", timeout_ms)
    try:
        s.from_string(smt2)
        r = s.check()
    except z3.Z3Exception as e:
        return ("unknown", f"z3 error {e}", time.time() - t, "z3")
    if r == z3.unsat:
        return ("unsat", None, time.time() - t, "z3")
    if r == z3.sat:
        m = s.model()
        txt = {str(d): str(m[d]) for d in m.decls() if m[d] is not None and not str(d).startswith("k!")} if want_model else {}
        return ("sat", txt, time.time() - t, "z3")
    reason = s.reason_unknown()
    # second opinion: cvc5 (full quantifier support differs; it may decide what z3 left open)
    t1 = time.time()
    try:
        with tempfile.NamedTemporaryFile("w", suffix=".smt2", delete=False) as f:
            f.write("(set-logic ALL)\n" + smt2 + "\n")
            fn = f.name
        p = subprocess.run(["/usr/bin/cvc5", "--tlimit", str(max(timeout_ms * 3, 30000)), "--full-saturate-quant", fn],
                           capture_output=True, text=True, timeout=max(timeout_ms * 3, 30000) / 1000 + 10)
        os.unlink(fn)
        ans = p.stdout.strip().splitlines()[0] if p.stdout.strip() else ""
        if ans == "unsat":
            return ("unsat", None, time.time() - t, "cvc5")
        if ans == "sat":
            return ("unknown", "cvc5 says sat (no model extracted; quantified - treated as undecided)", time.time() - t, "cvc5")
    except Exception as e:
        reason = f"{reason}; cvc5: {e}"
    return ("unknown", reason, time.time() - t, "z3+cvc5")


def discharge_all(run, obs, timeout_ms=20000, procs=None, on_sat=None):
    """obs: list of Ob. Folds into run; returns list of (Ob, status, detail)."""
    procs = procs or min(16, os.cpu_count() or 4)
    jobs = [(o.smt2, timeout_ms, True) for o in obs]
    if len(jobs) <= 2 or os.environ.get("VERIF_SERIAL"):
        res = [_solve(j) for j in jobs]
    else:
        with mp.get_context("fork").Pool(min(procs, len(jobs))) as pool:
            res = pool.map(_solve, jobs, chunksize=1)
    out = []
    for o, (status, detail, dt, backend) in zip(obs, res):
        name = f"{o.fn}::{o.clause}::{o.label}"
        if o.expect_sat:
            run.canary(name, status == "sat")
            out.append((o, status, detail)); continue
        if status == "unsat":
            run.add(name, "discharged", backend, dt, clause=f"{o.fn}::{o.clause}")
        elif status == "sat":
            run.add(name, "failed", backend, dt, clause=f"{o.fn}::{o.clause}")
            confirmed, replay = (False, {})
            if o.replay is not None and o.pc is not None:
                # re-solve in this process to obtain a model over the original terms, then replay on the real code
                try:
                    sv = z3.Solver(); sv.set("timeout", timeout_ms * 2)
                    sv.add(*o.axioms); sv.add(*o.pc); sv.add(z3.Not(o.claim))
                    if sv.check() == z3.sat:
                        confirmed, replay = o.replay(sv.model())
                    else:
                        replay = {"replay_error": "could not re-obtain the counter-model in-process"}
                except Exception as e:
                    import traceback
                    replay = {"replay_error": f"{type(e).__name__}: {e}", "tb": traceback.format_exc()[-800:]}
            run.violation(name, f"obligation {o.clause} of {o.fn} refuted (source line {o.lineno})",
                          {"function": o.fn, "clause": o.clause, "path_label": o.label, "source_line": o.lineno,
                           "solver": "z3: sat", "counter_model": detail, "native_replay": replay},
                          confirmed=confirmed, key=f"{o.fn}::{o.clause}")
        else:
            run.add(name, "undecided", backend, dt, detail=str(detail)[:200], clause=f"{o.fn}::{o.clause}")
        out.append((o, status, detail))
    return out


class FnVerifier:
    """Collects obligations for one function under contract."""

    def __init__(self, qualname, axioms):
        self.qualname, self.axioms = qualname, axioms
        self.obs = []
        self.paths = 0
        self.unsupported = None
        self.default_replay = None

    def add(self, clause, label, pc, claim, lineno=None, expect_sat=False, replay=None):
        self.obs.append(Ob(self.qualname, clause, label, to_smt2(self.axioms, pc, claim), lineno, expect_sat,
                           pc=list(pc), claim=claim, axioms=self.axioms, replay=replay or self.default_replay))

    def add_engine_obligations(self, ex):
        for k, (label, pc, claim, lineno) in enumerate(ex.obligations):
            self.add("side-condition:" + label.split("@")[0], f"{label}#{k}", pc, claim, lineno)
