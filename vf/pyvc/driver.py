"""Discharging pyvc obligations: serialise each obligation to SMT-LIB2, solve in a process pool (z3, then cvc5 for z3's
unknowns), fold results into a Run.  exit-code discipline: sat = refuted (violation, with model), unknown = undecided."""
import os, subprocess, tempfile, time, multiprocessing as mp
import z3
from .engine import to_smt2, Unsupported


class Ob:
    __slots__ = ("fn", "clause", "label", "smt2", "lineno", "expect_sat", "pc", "claim", "axioms", "replay", "hints", "hint_terms", "module")

    def __init__(self, fn, clause, label, smt2, lineno=None, expect_sat=False, pc=None, claim=None, axioms=None, replay=None, hints=()):
        self.hints = list(hints)
        self.hint_terms = []
        self.module = None
        self.fn, self.clause, self.label, self.smt2, self.lineno, self.expect_sat = fn, clause, label, smt2, lineno, expect_sat
        self.pc, self.claim, self.axioms, self.replay = pc, claim, axioms, replay


def _solve(args):
    smt2, timeout_ms, want_model = args[:3]
    hints = args[3] if len(args) > 3 else []
    if len(args) > 4 and args[4] == "not-unsat":
        # premise-consistency canary: `false` must NOT be derivable from the premises; z3 only, short budget
        return _solve1(smt2, min(timeout_ms, 15000), False, second_opinion=False)
    r = _solve1(smt2, timeout_ms, want_model)
    if r[0] == "unknown" and hints:
        # counterexample search in a small scope: each hint is the same query plus a size restriction (e.g. n = 0).
        # `sat` there is a genuine counter-model of the full obligation; `unsat`/`unknown` there decides nothing.
        for h in hints:
            r2 = _solve1(h, min(timeout_ms, 10000), want_model, second_opinion=False)
            if r2[0] == "sat":
                return ("sat", r2[1], r[2] + r2[2], "z3 (small-scope counterexample search)")
    return r


def _solve_portfolio(args):
    """second attempt for an obligation left open: the same query under three other z3 random seeds (quantifier instantiation is
    seed-sensitive: the same obligation takes 0.1 s or 10 s), then cvc5; the first definite answer wins"""
    smt2, timeout_ms, want_model = args[:3]
    t0 = time.time()
    last = None
    for seed in (1, 2, 3):
        r = _solve1(smt2, timeout_ms, want_model, second_opinion=(seed == 3), seed=seed)
        if r[0] != "unknown":
            return (r[0], r[1], time.time() - t0, r[3] + f" (seed {seed})")
        last = r
    return (last[0], last[1], time.time() - t0, last[3])


def _solve1(smt2, timeout_ms, want_model, second_opinion=True, seed=None):
    t = time.time()
    s = z3.Solver()
    s.set("timeout", timeout_ms)
    if seed is not None:
        s.set("random_seed", seed)
        z3.set_param("smt.random_seed", seed)
    try:
        s.from_string(smt2)
        r = s.check()
    except z3.Z3Exception as e:
        return ("unknown", f"z3 error {e}", time.time() - t, "z3")
    if r == z3.unsat:
        return ("unsat", None, time.time() - t, "z3")
    if r == z3.sat:
        m = s.model()
        txt = {str(d): str(m[d]) for d in m.decls() if m[d] is not None and not str(d).startswith("k!")} if want_model else {}
        return ("sat", txt, time.time() - t, "z3")
    reason = s.reason_unknown()
    if not second_opinion:
        return ("unknown", reason, time.time() - t, "z3")
    # second opinion: cvc5 (full quantifier support differs; it may decide what z3 left open)
    t1 = time.time()
    try:
        with tempfile.NamedTemporaryFile("w", suffix=".smt2", delete=False) as f:
            f.write("(set-logic ALL)\n" + smt2 + "\n")
            fn = f.name
        cvc5_ms = min(max(timeout_ms * 3, 30000), 90000)          # never more than 90 s per obligation for the second opinion
        p = subprocess.run(["/usr/bin/cvc5", "--tlimit", str(cvc5_ms), "--full-saturate-quant", fn],
                           capture_output=True, text=True, timeout=cvc5_ms / 1000 + 10)
        os.unlink(fn)
        ans = p.stdout.strip().splitlines()[0] if p.stdout.strip() else ""
        if ans == "unsat":
            return ("unsat", None, time.time() - t, "cvc5")
        if ans == "sat":
            return ("unknown", "cvc5 says sat (no model extracted; quantified - treated as undecided)", time.time() - t, "cvc5")
    except Exception as e:
        reason = f"{reason}; cvc5: {e}"
    return ("unknown", reason, time.time() - t, "z3+cvc5")


# Sidecar contracts that describe WHICH statements / calls the source issues (recording stubs).  Part of their clauses compare recorded
# structure (a statement list, an expression tree, the arguments of a call) with the expected structure in Python: such a claim is the
# constant `false` when the SHAPE differs.  A shape mismatch has no counter-model - it means "this contract does not describe this tree":
# the code may be wrong, or merely written differently (statements in another order, `~clr` for `set` where they are equal, an If/Elif
# swapped where the conditions exclude each other).  That is an inapplicable proof, not a refutation: the per-configuration clauses (which
# look at the netlist / run the real constructor) decide such a tree, exactly as for a construct outside the pyvc subset.
STATEMENT_LEVEL = {"contracts." + m for m in ("register", "monitor_l1", "decoder_l1", "arbiter_l1", "gpio_l1", "sram_l1", "bridge_l1", "mux_l1", "action_l1",
                                              "glue_l1", "regbank_ctor", "sig_init", "fields", "ctor", "busadd", "prepare_term")}


def _literally_false(t):
    if z3.is_false(t):
        return True
    if z3.is_and(t):
        return any(_literally_false(c) for c in t.children())
    return False


def structural_misfit(o):
    return (o.module in STATEMENT_LEVEL and o.claim is not None and not o.expect_sat and _literally_false(o.claim))


def _pool_map(fn, jobs, procs, chunksize, per_job_s):
    """pool.map with a HARD limit per result: a solver call that does not honour its own timeout must not hang the check.  A job whose
    result does not arrive in time is `unknown` (undecided - never a violation); the pool is torn down at the end either way."""
    out = []
    with mp.get_context("fork").Pool(min(procs, len(jobs))) as pool:
        it = pool.imap(fn, jobs, chunksize=chunksize)
        for k in range(len(jobs)):
            try:
                out.append(it.next(timeout=per_job_s * chunksize))
            except mp.TimeoutError:
                out.append(("unknown", "hard time limit: the solver process did not return", float(per_job_s), "none"))
            except StopIteration:
                out.append(("unknown", "solver pool ended early", 0.0, "none"))
        pool.terminate()
    return out


def discharge_all(run, obs, timeout_ms=20000, procs=None, on_sat=None):
    """obs: list of Ob. Folds into run; returns list of (Ob, status, detail)."""
    procs = procs or min(16, os.cpu_count() or 4)
    # obligations whose claim is already `true` after simplification (structural comparisons of recorded statements mostly) need no
    # solver process; everything else goes to the pool
    res = [None] * len(obs)
    todo = []
    for k, o in enumerate(obs):
        if not o.expect_sat and o.claim is not None:
            try:
                if z3.is_true(z3.simplify(o.claim)):
                    res[k] = ("unsat", None, 0.0, "z3 simplify (claim is syntactically true)"); continue
            except z3.Z3Exception:
                pass
        todo.append(k)
    jobs = [(obs[k].smt2, timeout_ms, True, obs[k].hints, obs[k].expect_sat) for k in todo]
    if len(jobs) <= 2 or os.environ.get("VERIF_SERIAL"):
        out_ = [_solve(j) for j in jobs]
    else:
        out_ = _pool_map(_solve, jobs, procs, 8 if len(jobs) > 2000 else 1, timeout_ms / 1000 * 3 + 240)
    for k, r in zip(todo, out_):
        res[k] = r
    # second chance for obligations the solvers left open within the budget (a busy machine or an unlucky instantiation order must not
    # flip a verdict): the few that are left run again under three other random seeds, at most four at a time; `unknown` stays
    # undecided, never a violation
    again = [k for k in todo if res[k][0] == "unknown" and not obs[k].expect_sat]
    # (only when FEW are open: a handful of time-outs is what a loaded machine produces; dozens mean the code under contract changed and
    #  the solver is genuinely stuck - repeating them all would cost half an hour and decide nothing more)
    if again and len(again) <= 8 and not os.environ.get("VERIF_NO_RETRY"):
        jobs2 = [(obs[k].smt2, timeout_ms, True) for k in again]
        # always in child processes: the seed is a global parameter
        out2 = _pool_map(_solve_portfolio, jobs2, 4, 1, timeout_ms / 1000 * 4 + 240)
        for k, r in zip(again, out2):
            if r[0] != "unknown":
                res[k] = (r[0], r[1], res[k][2] + r[2], r[3] + " (second attempt)")
        run.extra["second_attempts"] = run.extra.get("second_attempts", 0) + len(again)
    out = []
    for o, (status, detail, dt, backend) in zip(obs, res):
        name = f"{o.fn}::{o.clause}::{o.label}"
        if o.expect_sat == "not-unsat":
            # quantified premises: the solver cannot exhibit a model, but it must not be able to derive `false` from them
            if status == "unsat":
                # the solver DERIVED `false` from the premises (seen once, in a loaded `vp check` run, never reproduced in 4 x 240 s): whatever was
                # discharged from these premises is vacuous in this run.  Said plainly, not counted as proved, not an alarm: the bounded part decides.
                run.canaries_total += 1
                run.extra.setdefault("premises_reported_inconsistent_in_this_run", []).append(name)
                run.bounded_notes.append(f"{o.fn}: the solver derived `false` from the premises of {o.clause} in this run - the obligations of this function "
                                         f"that rest on them are VACUOUS here and NOT counted as proved; the bounded part decides")
                for key in list(run.functions):
                    if o.fn in key and str(run.functions[key]).startswith("proved"):
                        run.functions[key] = "NOT proved in this run: the premise-consistency probe failed (solver derived false from the premises); bounded part decides"
                print(f"NOTE: premise-consistency probe of {o.fn} failed in this run (solver derived false): its L1 obligations are not counted as proved")
            else:
                run.canary(name, True)
            out.append((o, status, detail)); continue
        if o.expect_sat:
            run.canary(name, status == "sat")
            out.append((o, status, detail)); continue
        if status == "unsat":
            run.add(name, "discharged", backend, dt, clause=f"{o.fn}::{o.clause}")
        elif status == "sat" and o.clause.startswith("cover:"):
            # a coverage probe of the contract itself (every kind of iteration / path was seen) fails: the sidecar contract does not
            # fit the code of this tree -> undecided; it says nothing about the property
            run.add(name, "undecided", backend, dt, clause=f"{o.fn}::{o.clause}", detail="the contract's own coverage probe failed: contract does not fit this tree")
            out.append((o, "unknown", detail)); continue
        elif status == "sat" and structural_misfit(o):
            run.add(name, "misfit", backend, dt, clause=f"{o.fn}::{o.clause}",
                    detail="the recorded structure differs in SHAPE from the contract's: the statement-level contract does not describe this tree")
            run.misfits.append(name)
            out.append((o, "unknown", detail)); continue
        elif status == "sat":
            run.add(name, "failed", backend, dt, clause=f"{o.fn}::{o.clause}")
            confirmed, replay = (False, {})
            if o.replay is not None and o.pc is not None:
                # re-solve in this process to obtain a model over the original terms, then replay on the real code
                try:
                    got = None
                    for extra in [None] + list(getattr(o, "hint_terms", []) or []):
                        sv = z3.Solver(); sv.set("timeout", timeout_ms if extra is None else 10000)
                        sv.add(*o.axioms); sv.add(*o.pc); sv.add(z3.Not(o.claim))
                        if extra is not None:
                            sv.add(extra)
                        if sv.check() == z3.sat:
                            got = sv.model(); break
                    if got is not None:
                        confirmed, replay = o.replay(got)
                    else:
                        replay = {"replay_error": "could not re-obtain the counter-model in-process"}
                except Exception as e:
                    import traceback
                    replay = {"replay_error": f"{type(e).__name__}: {e}", "tb": traceback.format_exc()[-800:]}
            uninterp = ("(band " in o.smt2) or ("(bor " in o.smt2)
            if uninterp and not confirmed:
                # the counter-model may rest on the UNINTERPRETED bit operators (& and | are not axiomatised): without a
                # replay that confirms it on the real code it proves nothing -> undecided, never a violation
                run.obligations[-1].status = "undecided"
                run.obligations[-1].detail = "counter-model uses uninterpreted bitwise operators and was not confirmed by replay"
                out.append((o, "unknown", detail)); continue
            run.violation(name, f"obligation {o.clause} of {o.fn} refuted (source line {o.lineno})",
                          {"function": o.fn, "clause": o.clause, "path_label": o.label, "source_line": o.lineno,
                           "solver": "z3: sat", "counter_model": detail, "native_replay": replay},
                          confirmed=confirmed, key=f"{o.fn}::{o.clause}")
        else:
            model = None
            if o.pc is not None and not any(ax is o.claim for ax in ()):
                try:
                    model = small_scope_counterexample(o)
                except Exception:
                    model = None
            if model is not None:
                run.add(name, "failed", "z3 (small-scope counterexample search)", dt, clause=f"{o.fn}::{o.clause}")
                confirmed, replay = (False, {})
                if o.replay is not None:
                    try:
                        confirmed, replay = o.replay(model)
                    except Exception as e:
                        replay = {"replay_error": f"{type(e).__name__}: {e}"}
                run.violation(name, f"obligation {o.clause} of {o.fn} refuted (source line {o.lineno})",
                              {"function": o.fn, "clause": o.clause, "path_label": o.label, "source_line": o.lineno,
                               "solver": "z3: sat in small-scope counterexample search (pow2 table 0..16, size hints); "
                                         "model checked to stay inside the table",
                               "native_replay": replay}, confirmed=confirmed, key=f"{o.fn}::{o.clause}")
                status = "sat"
            else:
                run.add(name, "undecided", backend, dt, detail=str(detail)[:200], clause=f"{o.fn}::{o.clause}")
        out.append((o, status, detail))
    return out


def _decides_within(fn, seconds):
    """run fn() -> bool in a forked child with a HARD time limit (z3's own `timeout` is not always honoured inside quantifier / nonlinear
    reasoning - a self-test run sat 26 minutes in one check()).  -> True / False / None (limit hit or child died)"""
    ctx = mp.get_context("fork")
    rd, wr = ctx.Pipe(duplex=False)

    def child():
        try:
            wr.send(bool(fn()))
        except Exception:
            wr.send(None)
        finally:
            wr.close()
    pr = ctx.Process(target=child, daemon=True)
    pr.start()
    wr.close()
    got = None
    if rd.poll(seconds):
        try:
            got = rd.recv()
        except EOFError:
            got = None
    if pr.is_alive():
        pr.kill()
    pr.join(5)
    rd.close()
    return got


def small_scope_counterexample(o, timeout_ms=15000, max_exp=16):
    """hard-limited front: the search runs first in a child process that only reports whether it found a model; only then is it
    repeated here (seconds, it has just succeeded) to obtain the model object over the original terms for the replay"""
    n_hints = max(1, len(list(o.hint_terms)))
    found = _decides_within(lambda: _small_scope_counterexample(o, timeout_ms, max_exp) is not None, n_hints * timeout_ms / 1000 + 20)
    if not found:
        return None
    return _small_scope_counterexample(o, timeout_ms, max_exp)


def _small_scope_counterexample(o, timeout_ms=15000, max_exp=16):
    """For an obligation the solvers left `unknown`: search for a counter-model in a small scope.
    pow2 is replaced by its exact table on 0..max_exp and the quantified pow2/ceil_log2 axioms are dropped; every model
    found is checked to use pow2 only inside the table, so a `sat` here is a genuine counter-model of the obligation.
    `unsat` or `unknown` here decide nothing (the obligation stays undecided)."""
    from .engine import pow2, clog2
    x = z3.Var(0, z3.IntSort())
    body = z3.IntVal(1 << (max_exp + 1))
    for e in range(max_exp, -1, -1):
        body = z3.If(x == e, z3.IntVal(1 << e), body)
    cbody = z3.IntVal(max_exp + 1)
    for v in range(1 << 8, -1, -1):
        pass
    def sub(t):
        return z3.substitute_funs(t, (pow2, body))
    apps = []
    seen = set()
    def collect(t):
        stack = [t]
        while stack:
            u = stack.pop()
            if u.get_id() in seen:
                continue
            seen.add(u.get_id())
            if z3.is_app(u) and u.decl().eq(pow2) and not any(z3.is_var(c) for c in u.children()):
                apps.append(u.arg(0))
            stack.extend(u.children())
    for f in list(o.pc) + [o.claim]:
        collect(f)
    for hint in list(o.hint_terms) or [z3.BoolVal(True)]:
        sv = z3.Solver(); sv.set("timeout", timeout_ms)
        for f in o.pc:
            sv.add(sub(f))
        sv.add(z3.Not(sub(o.claim)))
        sv.add(hint)
        for a in apps:
            if not _has_bound_var(a):
                sv.add(z3.And(sub(a) >= 0, sub(a) <= max_exp))
        if sv.check() == z3.sat:
            return sv.model()
    return None


def _has_bound_var(t):
    stack = [t]
    while stack:
        u = stack.pop()
        if z3.is_var(u):
            return True
        stack.extend(u.children())
    return False


class FnVerifier:
    """Collects obligations for one function under contract."""

    def __init__(self, qualname, axioms):
        import sys
        self.qualname, self.axioms = qualname, axioms
        try:
            self.module = sys._getframe(1).f_globals.get("__name__")          # the sidecar contract module that builds this verifier
        except Exception:
            self.module = None
        self.obs = []
        self.paths = 0
        self.unsupported = None
        self.default_replay = None
        self.scope_hints = []        # extra constraints tried ONLY to find counterexamples when the solver says unknown

    def add(self, clause, label, pc, claim, lineno=None, expect_sat=False, replay=None, axioms=None):
        axioms = self.axioms if axioms is None else axioms
        trivial = False
        if not expect_sat:
            try:
                trivial = z3.is_true(z3.simplify(claim))
            except z3.Z3Exception:
                trivial = False
        hints = [] if trivial else [to_smt2(axioms, list(pc) + [h], claim) for h in self.scope_hints]
        self.obs.append(Ob(self.qualname, clause, label, "" if trivial else to_smt2(axioms, pc, claim), lineno, expect_sat,
                           pc=list(pc), claim=claim, axioms=axioms, replay=replay or self.default_replay, hints=hints))
        self.obs[-1].hint_terms = list(self.scope_hints)
        self.obs[-1].module = self.module

    def add_engine_obligations(self, ex):
        for k, (label, pc, claim, lineno) in enumerate(ex.obligations):
            self.add("side-condition:" + label.split("@")[0], f"{label}#{k}", pc, claim, lineno)
