"""pyvc -- a verification-condition generator for the Python subset the anchored functions use.

Forward, path-wise symbolic execution of the REAL source text (re-read from /repo on every run through `ast`);
calls to functions under contract are replaced by the callee's contract (pre = obligation, post = assumption,
modified state havocked); every `assert`, every division/shift side condition and every post-condition clause
becomes a named obligation that a solver must discharge for ALL values of the free variables.

What the encoding assumes about Python is listed in vf/common.py::BASE_ASSUMPTIONS_L1 and DESIGN.md §2.1.
Unsupported constructs raise Unsupported(file:line) for that function: never a pass, never a violation.
"""
import ast, os, itertools
import z3

REPO = os.environ.get("VERIF_REPO", "/repo")


class Unsupported(Exception):
    pass


_QCACHE = {}


def _has_quantifier(f):
    k = f.get_id()
    if k in _QCACHE:
        return _QCACHE[k]
    res = False
    stack = [f]
    seen = set()
    while stack:
        t = stack.pop()
        if t.get_id() in seen:
            continue
        seen.add(t.get_id())
        if z3.is_quantifier(t):
            res = True; break
        stack.extend(t.children())
    _QCACHE[k] = res
    return res


# ---- source -----------------------------------------------------------------------------------
_SRC_CACHE = {}


def load_module_ast(relpath):
    path = os.path.join(REPO, relpath)
    if path not in _SRC_CACHE:
        src = open(path).read()
        _SRC_CACHE[path] = (ast.parse(src), src)
    return _SRC_CACHE[path][0]


def find_def(relpath, qualname):
    node = load_module_ast(relpath)
    for part in qualname.split("."):
        found = None
        for n in node.body:
            if isinstance(n, (ast.ClassDef, ast.FunctionDef)) and n.name == part:
                found = n
        if found is None:
            raise Unsupported(f"{relpath}: no definition {qualname}")
        node = found
    return node


# ---- theory -----------------------------------------------------------------------------------
Int, Bool = z3.IntSort(), z3.BoolSort()
pow2 = z3.Function("pow2", Int, Int)
clog2 = z3.Function("ceil_log2", Int, Int)
band = z3.Function("band", Int, Int, Int)
bor = z3.Function("bor", Int, Int, Int)
_i, _j = z3.Ints("i_ax j_ax")
# Axioms about 2**n.  Each is proved in Lean 4 / Mathlib (lemmas/Pow2.lean); see DESIGN.md §2.2.
POW2_AXIOMS = [
    z3.ForAll([_i], z3.Implies(_i >= 0, pow2(_i) >= 1), patterns=[pow2(_i)]),
    z3.ForAll([_i, _j], z3.Implies(z3.And(0 <= _i, _i <= _j), z3.And(pow2(_i) <= pow2(_j), pow2(_j) % pow2(_i) == 0)),
              patterns=[z3.MultiPattern(pow2(_i), pow2(_j))]),
    pow2(0) == 1, pow2(1) == 2, pow2(2) == 4, pow2(3) == 8,
]
# the same without the divisibility conjunct (for obligations that state divisibility through defined predicates instead)
POW2_AXIOMS_LIN = [
    z3.ForAll([_i], z3.Implies(_i >= 0, pow2(_i) >= 1), patterns=[pow2(_i)]),
    z3.ForAll([_i, _j], z3.Implies(z3.And(0 <= _i, _i <= _j), pow2(_i) <= pow2(_j)), patterns=[z3.MultiPattern(pow2(_i), pow2(_j))]),
    pow2(0) == 1, pow2(1) == 2, pow2(2) == 4, pow2(3) == 8,
]
_x, _y, _a, _b = z3.Ints("x_ax y_ax a_ax b_ax")
# Divisibility lemmas (Lean: lemmas/Pow2.lean mod_trans, mod_add); instantiated by E-matching on the shown patterns only.
MOD_LEMMAS = [
    z3.ForAll([_x, _a, _b], z3.Implies(z3.And(_a > 0, _b > 0, _x % _a == 0, _a % _b == 0), _x % _b == 0),
              patterns=[z3.MultiPattern(_x % _a, _a % _b)]),
    z3.ForAll([_x, _y, _b], z3.Implies(z3.And(_b > 0, _x % _b == 0, _y % _b == 0), (_x + _y) % _b == 0),
              patterns=[z3.MultiPattern(_x % _b, _y % _b)]),
]
# ceil_log2 characterisation (amaranth.utils.ceil_log2: assumed dependency contract, characterised in Lean)
CLOG2_AXIOMS = [
    z3.ForAll([_i], z3.Implies(_i >= 1, z3.And(clog2(_i) >= 0, pow2(clog2(_i)) >= _i,
                                               z3.Or(clog2(_i) == 0, pow2(clog2(_i) - 1) < _i))), patterns=[clog2(_i)]),
    clog2(0) == 0,
]

T_NONE, T_INT, T_STR, T_TUPLE, T_COMPONENT, T_OTHER = 0, 1, 2, 3, 4, 5


class NoneT:
    def __repr__(self):
        return "None"


NONE = NoneT()


class Dyn:
    """A dynamically typed value: tag, integer payload, object identity."""
    def __init__(self, name):
        self.name = name
        self.tag = z3.Int(f"{name}_tag")
        self.ival = z3.Int(f"{name}_int")
        self.ident = z3.Int(f"{name}_id")
        self.nonempty = z3.Bool(f"{name}_nonempty")      # for str / tuple values: len() > 0

    def wf(self):
        return z3.And(self.tag >= 0, self.tag <= T_OTHER)


class Rng:
    def __init__(self, start, stop, step):
        self.start, self.stop, self.step = start, stop, step


class Tup(tuple):
    pass


class FloatV:
    """result of a true division x / y of two integers: a CPython float (53-bit significand).  Only int() of it is modelled."""
    def __init__(self, num, den):
        self.num, self.den = num, den


_FRESH = itertools.count()


class Opaque:
    def __init__(self, what=""):
        self.what = what

    def __repr__(self):
        return f"<opaque {self.what}>"


class AbsSeq:
    """Abstract sequence: only emptiness (and optionally a length term) is known."""
    def __init__(self, nonempty, length=None):
        self.nonempty, self.length = nonempty, length


class SymObj:
    """A symbolic object: identity (Int constant), class name, and lazily created initial field values."""
    _count = itertools.count()

    def __init__(self, cls, name, init_fields=None, model=None):
        self.cls, self.name = cls, name
        self.ref = z3.Int(f"{name}_ref")
        self.init_fields = dict(init_fields or {})
        self.model = model      # optional python object implementing container semantics (contracts/models)

    def __repr__(self):
        return f"<{self.cls} {self.name}>"


class Raised:
    def __init__(self, exc):
        self.exc = exc


class Spread:
    """*x inside a tuple display where x is not a literal tuple: the elements of x, in order"""
    def __init__(self, value):
        self.value = value


class SliceV:
    """slice(lo, hi)"""
    def __init__(self, lo, hi):
        self.lo, self.hi = lo, hi


class DictLit:
    """a dict literal {"name": value, ...}"""
    def __init__(self, items):
        self.items = items


class Empty:
    """a freshly created empty list / dict / set"""
    def __init__(self, kind):
        self.kind = kind

    def __repr__(self):
        return f"<empty {self.kind}>"


class Path:
    def __init__(self, pc=None, env=None, heap=None, writes=None, ghost=None):
        self.pc = list(pc or [])
        self.env = dict(env or {})
        self.heap = dict(heap or {})
        self.writes = list(writes or [])
        self.ghost = dict(ghost or {})
        self.trace = []

    def fork(self):
        p = Path(self.pc, self.env, self.heap, self.writes, self.ghost)
        p.trace = list(self.trace)
        return p

    def assume(self, f):
        self.pc.append(f)


class Outcome:
    def __init__(self, kind, value, path, exc=None):
        self.kind, self.value, self.path, self.exc = kind, value, path, exc   # kind: return | raise


class Exec:
    def __init__(self, relpath, classname=None, axioms=(), contracts=None, builtins=None, feasibility=True):
        self.relpath, self.classname = relpath, classname
        self.axioms = list(axioms)
        self.contracts = dict(contracts or {})     # "self.method" / "Class.method" / function name -> callable
        self.obligations = []                      # (label, pc, claim, lineno)
        self.feas = feasibility
        self.paths_pruned = 0
        self.paths_total = 0
        self.loop_invariants = {}                  # ordinal -> handler
        self._loop_ord = 0
        self.yields = []                           # (value, path) for generator functions
        self.all_writes = []                       # every plain attribute store on a symbolic object, on any path: (object name, attribute, line)
        self.fn = None

    # ---- solver helpers ----------------------------------------------------------------------
    def feasible(self, pc):
        """Path pruning.  Sound over-approximation: only the quantifier-free conjuncts are consulted, under a short
        budget; `unknown` counts as feasible (an infeasible path that survives only yields vacuous obligations)."""
        if not self.feas:
            return True
        s = z3.Solver(); s.set("timeout", 400)
        for f in pc:
            if not _has_quantifier(f):
                s.add(f)
        r = s.check()
        if r == z3.unsat:
            self.paths_pruned += 1
            return False
        return True

    def oblige(self, label, path, claim, node=None):
        self.obligations.append((label, list(path.pc), claim, getattr(node, "lineno", None)))

    def unsupported(self, node, what=""):
        raise Unsupported(f"{self.relpath}:{getattr(node, 'lineno', '?')}: {what or type(node).__name__}: "
                          f"{ast.unparse(node)[:80] if isinstance(node, ast.AST) else node}")

    # ---- running ------------------------------------------------------------------------------
    def run(self, fn, path):
        self.fn = fn
        outs = []
        for kind, val, p in self.block(fn.body, path):
            if kind in ("fall",):
                outs.append(Outcome("return", NONE, p))
            elif kind == "return":
                outs.append(Outcome("return", val, p))
            elif kind == "raise":
                outs.append(Outcome("raise", None, p, exc=val))
            else:
                self.unsupported(fn, f"stray {kind}")
        self.paths_total = len(outs)
        return outs

    def block(self, stmts, path):
        """-> list of (kind, value, path); kind in fall/return/raise/break/continue"""
        results = []
        work = [(0, path)]
        while work:
            idx, p = work.pop()
            if idx == len(stmts):
                results.append(("fall", None, p)); continue
            for kind, val, p2 in self.stmt(stmts[idx], p):
                if kind == "fall":
                    work.append((idx + 1, p2))
                else:
                    results.append((kind, val, p2))
        return results

    def stmt(self, st, path):
        if isinstance(st, ast.Expr):
            if isinstance(st.value, ast.Constant):
                return [("fall", None, path)]
            if isinstance(st.value, (ast.Yield, ast.YieldFrom)):
                return self.do_yield(st.value, path)
            out = []
            for v, p in self.eval(st.value, path):
                out.append(("raise", v.exc, p) if isinstance(v, Raised) else ("fall", None, p))
            return out
        if isinstance(st, ast.Pass):
            return [("fall", None, path)]
        if isinstance(st, ast.If):
            out = []
            for c, p in self.eval(st.test, path):
                if isinstance(c, Raised):
                    out.append(("raise", c.exc, p)); continue
                for branch, cond in ((st.body, self.truth(c)), (st.orelse, z3.Not(self.truth(c)))):
                    q = p.fork(); q.assume(cond)
                    if self.feasible(q.pc):
                        out += self.block(branch, q)
            return out
        if isinstance(st, ast.Raise):
            exc = "?"
            if isinstance(st.exc, ast.Call):
                exc = ast.unparse(st.exc.func)
                # arguments (messages) are dropped by the extraction, but must not have side effects: only f-strings,
                # names, attribute reads and str ops are allowed there -- checked syntactically
                for a in ast.walk(st.exc):
                    if isinstance(a, ast.Call) and a is not st.exc and not self._pure_call(a):
                        self.unsupported(st, "call with possible side effect inside raise")
            elif isinstance(st.exc, ast.Name):
                exc = st.exc.id
            return [("raise", exc, path)]
        if isinstance(st, ast.Return):
            if st.value is None:
                return [("return", NONE, path)]
            out = []
            for v, p in self.eval(st.value, path):
                out.append(("raise", v.exc, p) if isinstance(v, Raised) else ("return", v, p))
            return out
        if isinstance(st, ast.Assert):
            out = []
            for c, p in self.eval(st.test, path):
                if isinstance(c, Raised):
                    out.append(("raise", c.exc, p)); continue
                self.oblige(f"assert@{st.lineno}", p, self.truth(c), st)
                p.assume(self.truth(c))
                out.append(("fall", None, p))
            return out
        if isinstance(st, ast.Assign):
            if len(st.targets) != 1:
                self.unsupported(st, "chained assignment")
            out = []
            for v, p in self.eval(st.value, path):
                if isinstance(v, Raised):
                    out.append(("raise", v.exc, p)); continue
                for r in self.assign(st.targets[0], v, p, st):
                    out.append(r)
            return out
        if isinstance(st, ast.AugAssign):
            load = ast.copy_location(ast.BinOp(self._as_load(st.target), st.op, st.value), st)
            return self.stmt(ast.copy_location(ast.Assign([st.target], load), st), path)
        if isinstance(st, ast.Delete):
            for t in st.targets:
                if isinstance(t, ast.Name):
                    path.env.pop(t.id, None)
                else:
                    self.unsupported(st, "del of non-name")
            return [("fall", None, path)]
        if isinstance(st, ast.For):
            ordn = self._loop_ord; self._loop_ord += 1
            h = self.loop_invariants.get(ordn) or self.loop_invariants.get(st.lineno)
            if h is None:
                if self._message_only_loop(st):
                    return [("fall", None, path)]
                self.unsupported(st, f"loop #{ordn} without an invariant")
            try:
                return h(self, st, path)
            except (KeyError, AttributeError, IndexError) as ex_:
                # the sidecar invariant refers to something (a local, a field) this tree's loop does not have: the loop is
                # outside what the contract can express here -> undecided, never a crash and never a violation
                self.unsupported(st, f"loop #{ordn}: the sidecar invariant does not fit this loop ({type(ex_).__name__}: {ex_})")
        if isinstance(st, ast.Try):
            return self.do_try(st, path)
        if isinstance(st, ast.With):
            return self.do_with(st, path)
        if isinstance(st, ast.While):
            h = getattr(self, "while_handler", None)
            if h is None:
                self.unsupported(st, "while loop (no contract given)")
            return h(self, st, path)
        if isinstance(st, ast.Continue):
            return [("continue", None, path)]
        if isinstance(st, ast.Break):
            return [("break", None, path)]
        if isinstance(st, ast.FunctionDef):
            path.env[st.name] = Opaque(f"closure {st.name}")
            path.ghost.setdefault("closures", {})[st.name] = st
            return [("fall", None, path)]
        self.unsupported(st)

    def _as_load(self, t):
        t2 = ast.parse(ast.unparse(t), mode="eval").body
        return ast.copy_location(t2, t)

    def _pure_call(self, call):
        f = ast.unparse(call.func)
        return f in ("repr", "str", "len", "hex", "bin", "format") or f.endswith(".join") or f.endswith(".format")

    def _message_only_loop(self, st):
        """A loop whose only effect is building an error message: no store to attributes/subscripts of anything but
        locals that are lists being appended to, no call except .append on a local and pure calls; no return/raise/yield."""
        for n in ast.walk(st):
            if isinstance(n, (ast.Return, ast.Raise, ast.Yield, ast.YieldFrom, ast.Break)):
                return False
            if isinstance(n, (ast.Assign, ast.AugAssign)):
                tgts = n.targets if isinstance(n, ast.Assign) else [n.target]
                for t in tgts:
                    for s in ast.walk(t):
                        if isinstance(s, (ast.Attribute, ast.Subscript)) and isinstance(s.ctx, ast.Store):
                            return False
            if isinstance(n, ast.Call):
                f = n.func
                if isinstance(f, ast.Attribute) and f.attr == "append" and isinstance(f.value, ast.Name):
                    continue
                if isinstance(f, ast.Name) and f.id == "id":
                    continue
                if not self._pure_call(n):
                    return False
        return True

    def do_with(self, st, path):
        """`with <ctx>:` for context objects whose protocol is given by a model (`enter` / `exit` on the object's model): used
        for the hardware-description contexts m.If / m.Switch / m.Case of recording Module stubs.  The body's exceptional
        outcomes propagate without running exit (these contexts do not handle exceptions)."""
        if len(st.items) != 1 or st.items[0].optional_vars is not None:
            self.unsupported(st, "with statement with several items or `as`")
        out = []
        for ctx, q in self.eval(st.items[0].context_expr, path):
            if isinstance(ctx, Raised):
                out.append(("raise", ctx.exc, q)); continue
            if not (isinstance(ctx, SymObj) and ctx.model is not None and hasattr(ctx.model, "enter")):
                self.unsupported(st, f"with {ctx!r}")
            ctx.model.enter(self, ctx, q, st)
            for kind, val, q2 in self.block(st.body, q):
                if kind == "fall":
                    ctx.model.exit(self, ctx, q2, st)
                out.append((kind, val, q2))
        return out

    def do_try(self, st, path):
        if st.orelse:
            self.unsupported(st, "try/else")
        out = []
        for kind, val, p in self.block(st.body, path):
            if kind == "raise":
                handled = False
                for h in st.handlers:
                    names = [ast.unparse(h.type)] if h.type is not None else [val]
                    if val in names or h.type is None:
                        out += self.block(h.body, p); handled = True; break
                if not handled:
                    out.append((kind, val, p))
            else:
                out.append((kind, val, p))
        if not st.finalbody:
            return out
        # finally: runs after EVERY outcome of the protected part; if it completes normally the original outcome continues
        # (fall / return value / the exception keeps propagating), otherwise its own outcome replaces it
        fin = []
        for kind, val, p in out:
            for k2, v2, p2 in self.block(st.finalbody, p):
                fin.append((kind, val, p2) if k2 == "fall" else (k2, v2, p2))
        return fin

    def do_yield(self, node, path):
        if isinstance(node, ast.YieldFrom):
            self.unsupported(node, "yield from (needs a generator contract)")
        out = []
        vals = self.eval(node.value, path) if node.value is not None else [(NONE, path)]
        for v, p in vals:
            if isinstance(v, Raised):
                out.append(("raise", v.exc, p)); continue
            self.yields.append((v, p.fork()))
            resume = getattr(self, "yield_resume", None)
            # a generator used as a context manager is resumed normally or has the with-body's exception thrown in at the yield
            out += resume(node, p) if resume is not None else [("fall", None, p)]
        return out

    # ---- assignment ---------------------------------------------------------------------------
    def assign(self, tgt, v, p, node):
        if isinstance(tgt, ast.Name):
            p.env[tgt.id] = v
            return [("fall", None, p)]
        if isinstance(tgt, (ast.Tuple, ast.List)):
            if isinstance(v, Opaque):
                for t in tgt.elts:
                    if isinstance(t, ast.Name):
                        p.env[t.id] = Opaque("unpacked")
                    else:
                        self.unsupported(node, "unpack target")
                return [("fall", None, p)]
            if not isinstance(v, tuple) or len(v) != len(tgt.elts):
                self.unsupported(node, f"tuple unpack of {v!r}")
            out = [("fall", None, p)]
            for t, x in zip(tgt.elts, v):
                nxt = []
                for kind, _, q in out:
                    nxt += self.assign(t, x, q, node) if kind == "fall" else [(kind, _, q)]
                out = nxt
            return out
        if isinstance(tgt, ast.Attribute):
            res = []
            for o, q in self.eval(tgt.value, p):
                if isinstance(o, Raised):
                    res.append(("raise", o.exc, q)); continue
                if not isinstance(o, SymObj):
                    self.unsupported(node, "attribute store on non-object")
                if o.model is not None and hasattr(o.model, "setattr"):
                    # a property setter represented by its contract: returns outcomes, or None for a plain store
                    r = o.model.setattr(self, o, tgt.attr, v, q, node)
                    if r is not None:
                        res += r
                        continue
                q.heap[(id(o), tgt.attr)] = v
                q.writes.append((o.name, tgt.attr))
                self.all_writes.append((o.name, tgt.attr, getattr(node, "lineno", None)))
                res.append(("fall", None, q))
            return res
        if isinstance(tgt, ast.Subscript):
            res = []
            for o, q in self.eval(tgt.value, p):
                if isinstance(o, Raised):
                    res.append(("raise", o.exc, q)); continue
                for key, q2 in self.eval(tgt.slice, q):
                    if isinstance(key, Raised):
                        res.append(("raise", key.exc, q2)); continue
                    if isinstance(o, SymObj) and o.model is not None and hasattr(o.model, "setitem"):
                        r = o.model.setitem(self, o, key, v, q2, node)
                        res += r if r is not None else [("fall", None, q2)]
                    elif (isinstance(o, DictLit) or (isinstance(o, Empty) and o.kind == "dict")) and isinstance(tgt.value, ast.Name) \
                            and isinstance(tgt.slice, ast.Constant) and isinstance(tgt.slice.value, str) and q2.env.get(tgt.value.id) is o:
                        # members["name"] = value on a dict literal held by a local: the local is re-bound to the extended literal
                        # (the literal is not aliased anywhere else as long as it is only ever used through this local - checked at the use)
                        items = dict(o.items) if isinstance(o, DictLit) else {}
                        items[tgt.slice.value] = v
                        q2.env = dict(q2.env); q2.env[tgt.value.id] = DictLit(items)
                        res.append(("fall", None, q2))
                    else:
                        self.unsupported(node, f"subscript store on {o!r}")
            return res
        self.unsupported(node, "assignment target")

    # ---- truthiness / coercions ---------------------------------------------------------------------
    def truth(self, v):
        if isinstance(v, z3.BoolRef):
            return v
        if isinstance(v, bool):
            return z3.BoolVal(v)
        if isinstance(v, z3.ArithRef):
            return v != 0
        if isinstance(v, AbsSeq):
            return v.nonempty
        if v is NONE:
            return z3.BoolVal(False)
        if isinstance(v, Dyn):
            # None -> False, int -> != 0, str/tuple -> non-empty, other objects -> truthy
            return z3.And(v.tag != T_NONE, z3.Or(v.tag != T_INT, v.ival != 0),
                          z3.Or(z3.And(v.tag != T_STR, v.tag != T_TUPLE), v.nonempty))
        if isinstance(v, SymObj) and v.model is not None and hasattr(v.model, "truth"):
            return v.model.truth(self, v)
        if isinstance(v, (SymObj, Rng)):
            return z3.BoolVal(True)
        if isinstance(v, tuple):
            return z3.BoolVal(len(v) > 0)
        if isinstance(v, Empty):
            return z3.BoolVal(False)
        raise Unsupported(f"truth value of {v!r}")

    def toint(self, v, node=None):
        if isinstance(v, z3.ArithRef):
            return v
        if isinstance(v, bool):
            return z3.IntVal(int(v))
        if isinstance(v, int):
            return z3.IntVal(v)
        if isinstance(v, z3.BoolRef):
            return z3.If(v, z3.IntVal(1), z3.IntVal(0))
        if isinstance(v, Dyn):
            return v.ival
        raise Unsupported(f"integer value of {v!r} at line {getattr(node, 'lineno', '?')}")

    # ---- expressions -------------------------------------------------------------------------------
    def eval(self, e, path):
        """-> list of (value, path); value may be Raised"""
        m = getattr(self, "e_" + type(e).__name__, None)
        if m is None:
            self.unsupported(e)
        return m(e, path)

    def eval_seq(self, exprs, path):
        """evaluate left-to-right; -> list of (list of values | Raised, path)"""
        res = [([], path)]
        for ex in exprs:
            nxt = []
            for vals, p in res:
                if isinstance(vals, Raised):
                    nxt.append((vals, p)); continue
                for v, q in self.eval(ex, p):
                    nxt.append((v, q) if isinstance(v, Raised) else (vals + [v], q))
            res = nxt
        return res

    def e_Constant(self, e, p):
        v = e.value
        if v is None:
            return [(NONE, p)]
        if isinstance(v, bool):
            return [(z3.BoolVal(v), p)]
        if isinstance(v, int):
            return [(z3.IntVal(v), p)]
        if isinstance(v, str):
            return [(Opaque(f"str:{v}"), p)]
        self.unsupported(e)

    def e_JoinedStr(self, e, p):
        return [(Opaque("fstr"), p)]

    def e_Name(self, e, p):
        if e.id in p.env:
            return [(p.env[e.id], p)]
        if e.id in ("True", "False"):
            return [(z3.BoolVal(e.id == "True"), p)]
        return [(Opaque(f"global:{e.id}"), p)]

    def e_Tuple(self, e, p):
        out = []
        elts = [x.value if isinstance(x, ast.Starred) else x for x in e.elts]
        for vals, q in self.eval_seq(elts, p):
            if isinstance(vals, Raised):
                out.append((vals, q)); continue
            flat = []
            for x, v in zip(e.elts, vals):
                if isinstance(x, ast.Starred):
                    if isinstance(v, tuple):
                        flat.extend(v)
                    else:
                        flat.append(Spread(v))
                else:
                    flat.append(v)
            out.append((Tup(flat), q))
        return out

    def e_Dict(self, e, p):
        """dict literal with constant string keys: a Python dict of engine values (used for wiring signature member tables)"""
        if not all(isinstance(k, ast.Constant) and isinstance(k.value, str) for k in e.keys):
            self.unsupported(e, "dict literal with non-literal keys")
        out = []
        for vals, q in self.eval_seq(list(e.values), p):
            out.append((vals, q) if isinstance(vals, Raised) else (DictLit({k.value: v for k, v in zip(e.keys, vals)}), q))
        return out

    def e_List(self, e, p):
        if not e.elts:
            f = getattr(self, "empty_list_factory", None)
            return [(f(p) if f is not None else Empty("list"), p)]
        return self.e_Tuple(e, p)

    def e_Attribute(self, e, p):
        out = []
        for o, q in self.eval(e.value, p):
            if isinstance(o, Raised):
                out.append((o, q)); continue
            out += self.getattr(o, e.attr, q, e)
        return out

    def getattr(self, o, attr, q, node):
        if isinstance(o, Rng):
            if attr in ("start", "stop", "step"):
                return [(getattr(o, attr), q)]
            self.unsupported(node, "range attribute")
        if isinstance(o, SliceV):
            if attr in ("start", "stop"):
                return [(o.lo if attr == "start" else o.hi, q)]
            self.unsupported(node, "slice attribute")
        if isinstance(o, SymObj):
            key = (id(o), attr)
            if key in q.heap:
                return [(q.heap[key], q)]
            if attr in o.init_fields:
                return [(o.init_fields[attr], q)]
            # property getter of the object's class: inline `return self._x` bodies from the real source
            getter = self._property(o.cls, attr)
            if getter is not None:
                return self.inline(getter, [o], {}, q, node)
            if o.model is not None and hasattr(o.model, "getattr"):
                r = o.model.getattr(self, o, attr, q, node)
                if r is not None:
                    return r
            self.unsupported(node, f"attribute {attr} of {o!r}")
        if isinstance(o, Opaque):
            return [(Opaque(f"{o.what}.{attr}"), q)]
        if isinstance(o, Dyn):
            return [(Opaque(f"{o.name}.{attr}"), q)]
        if hasattr(o, "getattr_sym"):
            r = o.getattr_sym(attr)
            if r is not None:
                return [(r, q)]
        self.unsupported(node, f"attribute of {o!r}")

    _prop_cache = {}

    def _property(self, cls, attr):
        key = (self.relpath, cls, attr)
        if key in self._prop_cache:
            return self._prop_cache[key]
        res = None
        try:
            cnode = find_def(self.class_files.get(cls, self.relpath), cls) if hasattr(self, "class_files") else find_def(self.relpath, cls)
            for n in cnode.body:
                if isinstance(n, ast.FunctionDef) and n.name == attr and any(
                        isinstance(d, ast.Name) and d.id == "property" for d in n.decorator_list):
                    res = n
        except Unsupported:
            res = None
        self._prop_cache[key] = res
        return res

    def inline(self, fn, args, kwargs, path, node, base_env=None):
        """Inline a (small) function body: bind parameters, run, map outcomes (base_env: enclosing scope of a closure)."""
        env = dict(base_env or {})
        params = [a.arg for a in fn.args.args]
        for nm, v in zip(params, args):
            env[nm] = v
        defaults = fn.args.defaults
        for i, nm in enumerate(params[len(args):]):
            if nm in kwargs:
                env[nm] = kwargs[nm]
            else:
                d = defaults[len(defaults) - (len(params) - len(args)) + i] if len(defaults) >= len(params) - len(args) - i else None
                if d is None:
                    self.unsupported(node, f"missing argument {nm}")
                env[nm] = self.eval(d, path)[0][0]
        for a, d in zip(fn.args.kwonlyargs, fn.args.kw_defaults):
            if a.arg in kwargs:
                env[a.arg] = kwargs[a.arg]
            elif d is not None:
                env[a.arg] = self.eval(d, path)[0][0]
            else:
                self.unsupported(node, f"missing keyword argument {a.arg}")
        sub = path.fork(); saved_env = path.env; sub.env = env
        out = []
        for kind, val, p in self.block(fn.body, sub):
            p.env = dict(saved_env)
            if kind == "fall":
                out.append((NONE, p))
            elif kind == "return":
                out.append((val, p))
            elif kind == "raise":
                out.append((Raised(val), p))
            else:
                self.unsupported(node, f"stray {kind} in inlined call")
        return out

    def e_UnaryOp(self, e, p):
        out = []
        for v, q in self.eval(e.operand, p):
            if isinstance(v, Raised):
                out.append((v, q)); continue
            if isinstance(v, SymObj) and v.model is not None and hasattr(v.model, "unop"):
                r = v.model.unop(self, v, e.op, q, e)
                if r is not None:
                    out.append((r, q)); continue
            if isinstance(e.op, ast.Not):
                out.append((z3.Not(self.truth(v)), q))
            elif isinstance(e.op, ast.USub):
                out.append((-self.toint(v, e), q))
            elif isinstance(e.op, ast.Invert):
                out.append((-self.toint(v, e) - 1, q))
            else:
                self.unsupported(e)
        return out

    def e_BoolOp(self, e, p):
        # short-circuit by forking; the value of `a or b` / `a and b` is only used as a truth value in the subset
        is_or = isinstance(e.op, ast.Or)
        results = []
        work = [(0, p)]
        while work:
            idx, q = work.pop()
            for v, q2 in self.eval(e.values[idx], q):
                if isinstance(v, Raised):
                    results.append((v, q2)); continue
                c = self.truth(v)
                if idx == len(e.values) - 1:
                    results.append((c, q2)); continue
                t = q2.fork(); t.assume(c)
                f = q2.fork(); f.assume(z3.Not(c))
                if is_or:
                    if self.feasible(t.pc):
                        results.append((z3.BoolVal(True), t))
                    if self.feasible(f.pc):
                        work.append((idx + 1, f))
                else:
                    if self.feasible(f.pc):
                        results.append((z3.BoolVal(False), f))
                    if self.feasible(t.pc):
                        work.append((idx + 1, t))
        return results

    def e_IfExp(self, e, p):
        out = []
        for c, q in self.eval(e.test, p):
            if isinstance(c, Raised):
                out.append((c, q)); continue
            for br, cond in ((e.body, self.truth(c)), (e.orelse, z3.Not(self.truth(c)))):
                r = q.fork(); r.assume(cond)
                if self.feasible(r.pc):
                    out += self.eval(br, r)
        return out

    def e_Compare(self, e, p):
        out = []
        for vals, q in self.eval_seq([e.left] + list(e.comparators), p):
            if isinstance(vals, Raised):
                out.append((vals, q)); continue
            conj = []
            for op, a, b, rn in zip(e.ops, vals, vals[1:], e.comparators):
                conj.append(self.compare(op, a, b, q, e))
            out.append((conj[0] if len(conj) == 1 else z3.And(*conj), q))
        return out

    def compare(self, op, a, b, q, node):
        if isinstance(op, (ast.Is, ast.IsNot)):
            if b is NONE:
                if isinstance(a, Dyn):
                    c = a.tag == T_NONE
                elif a is NONE:
                    c = z3.BoolVal(True)
                elif hasattr(a, "is_none"):
                    c = a.is_none
                else:
                    c = z3.BoolVal(False)
            elif isinstance(a, SymObj) and isinstance(b, SymObj):
                c = z3.BoolVal(a is b)
            elif hasattr(a, "is_none") and b is NONE:
                c = a.is_none
            elif isinstance(a, (z3.ArithRef, int)) and isinstance(b, (z3.ArithRef, int)) and not isinstance(a, bool) and not isinstance(b, bool):
                # identity of two int objects: implies equality; guaranteed by CPython only for the cached small ints (-5..256);
                # otherwise it depends on how each object was produced -> an unconstrained Boolean
                x, y = self.toint(a, node), self.toint(b, node)
                c = z3.Bool(f"int_identity!{next(_FRESH)}")
                q.assume(z3.Implies(c, x == y))
                q.assume(z3.Implies(z3.And(x == y, x >= -5, x <= 256), c))
            else:
                self.unsupported(node, "is")
            return c if isinstance(op, ast.Is) else z3.Not(c)
        if isinstance(op, (ast.In, ast.NotIn)):
            if isinstance(b, SymObj) and b.model is not None and hasattr(b.model, "contains"):
                c = b.model.contains(self, b, a, q, node)
            elif isinstance(b, tuple) and all(isinstance(x, (z3.ArithRef, int)) for x in b):
                c = z3.Or(*[self.toint(a, node) == self.toint(x) for x in b]) if b else z3.BoolVal(False)
                if isinstance(a, Dyn):
                    c = z3.And(a.tag == T_INT, c)
            elif isinstance(b, Rng):
                x = self.toint(a, node)
                c = z3.And(b.start <= x, x < b.stop)      # step 1 ranges only (obligation)
                self.oblige("range-membership-step-1", q, b.step == 1, node)
            else:
                self.unsupported(node, f"membership in {b!r}")
            return c if isinstance(op, ast.In) else z3.Not(c)
        if isinstance(op, (ast.Eq, ast.NotEq)):
            c = self.equal(a, b, node)
            return c if isinstance(op, ast.Eq) else z3.Not(c)
        x, y = self.toint(a, node), self.toint(b, node)
        return {ast.Lt: lambda: x < y, ast.LtE: lambda: x <= y, ast.Gt: lambda: x > y, ast.GtE: lambda: x >= y}[type(op)]()

    def equal(self, a, b, node):
        if a is b and isinstance(a, Dyn):
            return z3.BoolVal(True)        # the very same None/int/str/tuple/object value: `==` is reflexive on these
        if isinstance(a, z3.BoolRef) and isinstance(b, z3.BoolRef):
            return a == b
        if isinstance(a, (z3.ArithRef, int, Dyn)) and isinstance(b, (z3.ArithRef, int, Dyn)):
            c = self.toint(a, node) == self.toint(b, node)
            for v in (a, b):
                if isinstance(v, Dyn):
                    c = z3.And(v.tag == T_INT, c)
            return c
        if isinstance(a, tuple) and isinstance(b, tuple):
            if len(a) != len(b):
                return z3.BoolVal(False)
            return z3.And(*[self.equal(x, y, node) for x, y in zip(a, b)]) if a else z3.BoolVal(True)
        if isinstance(a, z3.ExprRef) and isinstance(b, z3.ExprRef) and a.sort().eq(b.sort()):
            return a == b          # values of an uninterpreted sort (e.g. name parts): Python == is their equality
        if hasattr(self, "equal_hook"):
            r = self.equal_hook(a, b, node)
            if r is not None:
                return r
        self.unsupported(node, f"== between {a!r} and {b!r}")

    def e_BinOp(self, e, p):
        # syntactic idiom: X & (X - 1)  (power-of-two test)
        if isinstance(e.op, ast.BitAnd) and isinstance(e.right, ast.BinOp) and isinstance(e.right.op, ast.Sub) \
                and isinstance(e.right.right, ast.Constant) and e.right.right.value == 1 \
                and ast.unparse(e.left) == ast.unparse(e.right.left):
            out = []
            for v, q in self.eval(e.left, p):
                if isinstance(v, Raised):
                    out.append((v, q)); continue
                x = self.toint(v, e)
                r = z3.FreshInt("pow2test")
                # X & (X - 1): only "a non-negative integer" is assumed about the result (for X >= 0).  Nothing the verified
                # contracts claim depends on WHICH values pass the power-of-two test, so no bit-level lemma is trusted here.
                q.assume(r >= 0)
                q.ghost["pow2tests"] = q.ghost.get("pow2tests", ()) + ((x, r),)      # r names X & (X - 1) for this X
                self.oblige("pow2-test-operand-nonneg", q, x >= 0, e)
                out.append((r, q))
            return out
        out = []
        for vals, q in self.eval_seq([e.left, e.right], p):
            if isinstance(vals, Raised):
                out.append((vals, q)); continue
            a, b = vals
            if isinstance(a, SymObj) and a.model is not None and hasattr(a.model, "binop"):
                # an object whose operators are given by contract (e.g. `m.d.comb += [...]` on a recording Module stub)
                r = a.model.binop(self, a, e.op, b, q, e)
                if r is not None:
                    out.append((r, q)); continue
            if isinstance(a, Opaque) or isinstance(b, Opaque):
                out.append((Opaque("binop"), q)); continue
            if isinstance(a, tuple) and isinstance(b, tuple) and isinstance(e.op, ast.Add):
                out.append((Tup(tuple(a) + tuple(b)), q)); continue
            out.append((self.binop(e.op, a, b, q, e), q))
        return out

    def binop(self, op, a, b, q, node):
        x, y = self.toint(a, node), self.toint(b, node)
        if isinstance(op, ast.Add):
            return x + y
        if isinstance(op, ast.Sub):
            return x - y
        if isinstance(op, ast.Mult):
            return x * y
        if isinstance(op, ast.Mod):
            self.oblige(f"mod-divisor-nonzero@{node.lineno}", q, y != 0, node)
            self.oblige(f"mod-divisor-positive@{node.lineno}", q, y > 0, node)   # then z3 mod == Python %
            return x % y
        if isinstance(op, ast.FloorDiv):
            self.oblige(f"div-divisor-nonzero@{node.lineno}", q, y != 0, node)
            self.oblige(f"div-divisor-positive@{node.lineno}", q, y > 0, node)   # then z3 div == Python //
            return x / y
        if isinstance(op, ast.Div):
            self.oblige(f"div-divisor-nonzero@{node.lineno}", q, y != 0, node)
            return FloatV(x, y)
        if isinstance(op, ast.LShift):
            self.oblige(f"shift-count-nonneg@{node.lineno}", q, y >= 0, node)
            if z3.is_int_value(x) and x.as_long() == 1:
                return pow2(y)
            return x * pow2(y)
        if isinstance(op, ast.RShift):
            self.oblige(f"shift-count-nonneg@{node.lineno}", q, y >= 0, node)
            return x / pow2(y)        # floor division by a positive power of two == Python >> (all ints)
        if isinstance(op, ast.Pow):
            if z3.is_int_value(x) and x.as_long() == 2:
                self.oblige(f"pow-exponent-nonneg@{node.lineno}", q, y >= 0, node)
                return pow2(y)
            self.unsupported(node, "** with base other than 2")
        if isinstance(op, ast.BitAnd):
            return band(x, y)
        if isinstance(op, ast.BitOr):
            return bor(x, y)
        self.unsupported(node, f"operator {type(op).__name__}")

    def e_Subscript(self, e, p):
        out = []
        for o, q in self.eval(e.value, p):
            if isinstance(o, Raised):
                out.append((o, q)); continue
            if isinstance(e.slice, ast.Slice):
                if isinstance(o, SymObj) and o.model is not None and hasattr(o.model, "getslice"):
                    lo = self.eval(e.slice.lower, q)[0][0] if e.slice.lower is not None else None
                    hi = self.eval(e.slice.upper, q)[0][0] if e.slice.upper is not None else None
                    out.append((o.model.getslice(self, o, lo, hi, q, e), q)); continue
                self.unsupported(e, "slice")
            for key, q2 in self.eval(e.slice, q):
                if isinstance(key, Raised):
                    out.append((key, q2)); continue
                if isinstance(o, tuple):
                    if z3.is_int_value(key):
                        out.append((o[key.as_long()], q2)); continue
                    self.unsupported(e, "symbolic tuple index")
                if isinstance(key, z3.ArithRef):
                    key = z3.simplify(key)
                if isinstance(o, Rng) and z3.is_int_value(key) and key.as_long() in (0, -1):
                    # range(start, stop, step)[0] / [-1] for a positive step; IndexError on an empty range
                    self.oblige(f"range-step-positive@{e.lineno}", q2, o.step > 0, e)
                    qe = q2.fork(); qe.assume(o.stop <= o.start)
                    out.append((Raised("IndexError"), qe))
                    q2.assume(o.stop > o.start)
                    last = o.start + ((o.stop - o.start - 1) / o.step) * o.step
                    out.append((o.start if key.as_long() == 0 else last, q2)); continue
                if isinstance(o, SymObj) and o.model is not None and hasattr(o.model, "getitem"):
                    out += o.model.getitem(self, o, key, q2, e); continue
                if isinstance(o, Opaque):
                    out.append((Opaque("item"), q2)); continue
                if hasattr(o, "getitem_sym"):
                    out += o.getitem_sym(self, key, q2, e); continue
                self.unsupported(e, f"subscript of {o!r}")
        return out

    def e_ListComp(self, e, p):
        if hasattr(self, "listcomp_hook"):
            r = self.listcomp_hook(e, p)
            if r is not None:
                return r
        self.unsupported(e, "list comprehension")

    def e_GeneratorExp(self, e, p):
        g = Opaque("genexp")
        g.node = e
        g.source = None
        first = e.generators[0].iter
        # Python evaluates the outermost iterable when the generator object is created; if that value is a symbolic object whose model
        # wants to know (a one-shot iterable), tell it
        if isinstance(first, ast.Name) and first.id in p.env:
            src = p.env[first.id]
            g.source = src
            if isinstance(src, SymObj) and src.model is not None and hasattr(src.model, "iterated"):
                src.model.iterated(self, src, p, e)
        return [(g, p)]

    def e_Starred(self, e, p):
        self.unsupported(e, "starred")

    # ---- calls ------------------------------------------------------------------------------------
    def e_Call(self, e, p):
        fname = ast.unparse(e.func)
        # evaluate receiver for method calls on objects
        if isinstance(e.func, ast.Attribute):
            recvs = self.eval(e.func.value, p)
        else:
            recvs = [(None, p)]
        out = []
        for recv, q in recvs:
            if isinstance(recv, Raised):
                out.append((recv, q)); continue
            if any(isinstance(a, ast.Starred) for a in e.args):
                handler = self.contracts.get(fname) or (isinstance(recv, SymObj) and self.contracts.get(f"{recv.cls}.{e.func.attr}"))
                if handler and getattr(handler, "takes_ast", False):
                    out += handler(self, e, recv, q); continue
                self.unsupported(e, "starred argument")
            for vals, q2 in self.eval_seq(list(e.args) + [k.value for k in e.keywords], q):
                if isinstance(vals, Raised):
                    out.append((vals, q2)); continue
                args = vals[:len(e.args)]
                kwargs = {k.arg: v for k, v in zip(e.keywords, vals[len(e.args):])}
                out += self.call(fname, e, recv, args, kwargs, q2)
        return out

    def call(self, fname, e, recv, args, kwargs, q):
        # 1. explicit contracts by source text of the callee expression, then by (class, method) of the receiver
        h = self.contracts.get(fname)
        if h is None and recv is not None and not isinstance(recv, SymObj) and isinstance(e.func, ast.Attribute) \
                and getattr(recv, "cls", None):
            h = self.contracts.get(f"{recv.cls}.{e.func.attr}")
        if h is None and isinstance(recv, SymObj) and isinstance(e.func, ast.Attribute):
            h = self.contracts.get(f"{recv.cls}.{e.func.attr}")
            if h is None and recv.model is not None and hasattr(recv.model, "call_" + e.func.attr):
                return getattr(recv.model, "call_" + e.func.attr)(self, recv, args, kwargs, q, e)
        if h is not None:
            return h(self, recv, args, kwargs, q, e)
        if (isinstance(recv, DictLit) or (isinstance(recv, Empty) and recv.kind == "dict")) and isinstance(e.func, ast.Attribute) \
                and e.func.attr == "update" and isinstance(e.func.value, ast.Name) and q.env.get(e.func.value.id) is recv \
                and len(args) == 1 and isinstance(args[0], DictLit) and not kwargs:
            # members.update({...}) on a dict literal held by a local: the local is re-bound to the merged literal
            items = dict(recv.items) if isinstance(recv, DictLit) else {}
            items.update(args[0].items)
            q.env = dict(q.env); q.env[e.func.value.id] = DictLit(items)
            return [(NONE, q)]
        # 2. builtins
        b = getattr(self, "b_" + fname.replace(".", "_"), None)
        if b is not None:
            return b(args, kwargs, q, e)
        self.unsupported(e, f"call to {fname}")

    def b_isinstance(self, args, kwargs, q, e):
        v = args[0]
        ty = ast.unparse(e.args[1])
        return [(self.isinstance(v, ty, e), q)]

    def isinstance(self, v, ty, node):
        ty = ty.strip()
        if ty.startswith("(") and ty.endswith(")"):
            parts = [t.strip() for t in ty[1:-1].split(",") if t.strip()]
            return z3.Or(*[self.isinstance(v, t, node) for t in parts])
        if isinstance(v, Dyn):
            m = {"int": v.tag == T_INT, "str": v.tag == T_STR, "tuple": v.tag == T_TUPLE,
                 "wiring.Component": v.tag == T_COMPONENT, "range": z3.BoolVal(False)}
            if ty in m:
                return m[ty]
            if hasattr(self, "isinstance_hook"):
                r = self.isinstance_hook(v, ty, node)
                if r is not None:
                    return r
            self.unsupported(node, f"isinstance(dyn, {ty})")
        if isinstance(v, (z3.ArithRef, int)) and not isinstance(v, bool):
            return z3.BoolVal(ty == "int")
        if isinstance(v, z3.BoolRef):
            return z3.BoolVal(ty in ("int", "bool"))
        if isinstance(v, Rng):
            return z3.BoolVal(ty == "range")
        if isinstance(v, SymObj):
            if hasattr(self, "isinstance_hook"):
                r = self.isinstance_hook(v, ty, node)
                if r is not None:
                    return r
            return z3.BoolVal(ty.split(".")[-1] == v.cls)
        if v is NONE:
            return z3.BoolVal(False)
        if isinstance(v, tuple):
            return z3.BoolVal(ty == "tuple")
        if isinstance(v, Opaque) and hasattr(self, "isinstance_hook"):
            r = self.isinstance_hook(v, ty, node)
            if r is not None:
                return r
        self.unsupported(node, f"isinstance({v!r}, {ty})")

    def b_slice(self, args, kwargs, q, e):
        if len(args) != 2:
            self.unsupported(e, "slice() with other than two arguments")
        return [(SliceV(self.toint(args[0], e), self.toint(args[1], e)), q)]

    def b_max(self, args, kwargs, q, e):
        x, y = self.toint(args[0], e), self.toint(args[1], e)
        return [(z3.If(x >= y, x, y), q)]

    def b_min(self, args, kwargs, q, e):
        x, y = self.toint(args[0], e), self.toint(args[1], e)
        return [(z3.If(x <= y, x, y), q)]

    def b_range(self, args, kwargs, q, e):
        a = [self.toint(x, e) for x in args]
        if len(a) == 1:
            return [(Rng(z3.IntVal(0), a[0], z3.IntVal(1)), q)]
        if len(a) == 2:
            return [(Rng(a[0], a[1], z3.IntVal(1)), q)]
        self.oblige(f"range-step-nonzero@{e.lineno}", q, a[2] != 0, e)
        return [(Rng(a[0], a[1], a[2]), q)]

    def b_int(self, args, kwargs, q, e):
        v = args[0] if args else z3.IntVal(0)
        if isinstance(v, FloatV):
            # int(x / y): exact when both operands are exactly representable as floats and the quotient is an integer
            # (IEEE division is correctly rounded); otherwise the nearest-float rounding is NOT modelled: any integer
            r = z3.Int(f"int_of_float!{next(_FRESH)}")
            lim = z3.IntVal(1 << 53)
            q.assume(z3.Implies(z3.And(v.den > 0, v.num >= 0, v.num <= lim, v.den <= lim, v.num % v.den == 0), r == v.num / v.den))
            return [(r, q)]
        if isinstance(v, (z3.ArithRef, int)) and not kwargs and len(args) == 1:
            return [(self.toint(v, e), q)]
        self.unsupported(e, f"int({v!r})")

    def b_reversed(self, args, kwargs, q, e):
        v = args[0]
        if isinstance(v, Rng):
            return [(("reversed", v), q)]
        self.unsupported(e, f"reversed({v!r})")

    def b_id(self, args, kwargs, q, e):
        v = args[0]
        if isinstance(v, Dyn):
            return [(v.ident, q)]
        if isinstance(v, SymObj):
            return [(v.ref, q)]
        if hasattr(v, "ident"):
            return [(v.ident, q)]
        self.unsupported(e, f"id({v!r})")

    def b_len(self, args, kwargs, q, e):
        v = args[0]
        if isinstance(v, tuple):
            return [(z3.IntVal(len(v)), q)]
        if isinstance(v, AbsSeq) and v.length is not None:
            return [(v.length, q)]
        if isinstance(v, SymObj) and v.model is not None and hasattr(v.model, "length"):
            return [(v.model.length(self, v, q, e), q)]
        if hasattr(v, "len_term"):
            return [(v.len_term, q)]
        self.unsupported(e, f"len({v!r})")

    def b_ceil_log2(self, args, kwargs, q, e):
        x = self.toint(args[0], e)
        self.oblige(f"ceil_log2-arg-nonneg@{e.lineno}", q, x >= 0, e)
        return [(clog2(x), q)]

    def b_tuple(self, args, kwargs, q, e):
        return [(Opaque("tuple(...)"), q)]

    def b_bool(self, args, kwargs, q, e):
        return [(self.truth(args[0]), q)]

    def b_dict(self, args, kwargs, q, e):
        if args or kwargs:
            self.unsupported(e, "dict(...) with arguments")
        return [(Empty("dict"), q)]

    def b_set(self, args, kwargs, q, e):
        if args or kwargs:
            self.unsupported(e, "set(...) with arguments")
        return [(Empty("set"), q)]


# ---- discharging ---------------------------------------------------------------------------------
def discharge(axioms, pc, claim, timeout_ms=10000):
    """-> (status, detail): 'unsat' = holds for all values; 'sat' with model text; 'unknown'"""
    s = z3.Solver()
    s.set("timeout", timeout_ms)
    s.add(*axioms)
    s.add(*pc)
    s.add(z3.Not(claim))
    r = s.check()
    if r == z3.unsat:
        return "unsat", None
    if r == z3.sat:
        return "sat", s.model()
    return "unknown", s.reason_unknown()


def to_smt2(axioms, pc, claim):
    s = z3.Solver()
    s.add(*axioms); s.add(*pc); s.add(z3.Not(claim))
    return s.to_smt2()
