"""./check <ID> --replay <file>: re-run the recorded counterexample against /repo's CURRENT tree.

For per-configuration (L2/L3) obligations the recorded configuration is rebuilt from the real code, the clause is
re-checked, and -- if it is still refuted -- the counter-model is replayed again in amaranth.sim / natively.
For pyvc (L1) obligations the function's verification conditions are regenerated from the current source and the recorded
obligation is re-discharged.  Exit 1 (with a VIOLATION line) if the obligation still fails, 0 if it is now discharged."""
import importlib, json, os, tempfile
from .common import Run, EXIT_OK, EXIT_VIOLATION, EXIT_ENGINE


def replay_file(prop, path):
    d = json.load(open(path))
    ob = d.get("obligation", "")
    print(f"replaying {ob[:160]}")
    os.environ["VERIF_EVIDENCE_DIR"] = tempfile.mkdtemp(prefix="replay_ev_")
    if "config" in d:
        from .hdl.harness import Ctx, cfg_key, Refused, ElaborationFailed
        modname = f"vf.props.{prop}"
        clause = ob.split("@")[0]
        mod = importlib.import_module(modname)
        cfg = d["config"]
        if clause in ("r_stb_exact", "zero_when_idle", "snapshot_data", "snapshot_inv", "w_stb_exact", "write_inv", "write_frame",
                      "map_agreement") and prop == "C06" and "root" in cfg:
            mod = importlib.import_module("vf.props.C06tree")
        ctx = Ctx(cfg, cfg_key(cfg))
        try:
            mod.check_config(ctx, cfg)
        except Refused as e:
            print(f"configuration is now refused by the constructor: {e}"); return EXIT_OK
        except ElaborationFailed as e:
            print(f"VIOLATION property={prop} replay={path}  (elaboration still fails: {e})"); return EXIT_VIOLATION
        hits = [r for r in ctx.results if r["name"].split("@")[0] == clause]
        still = [r for r in hits if r["status"] == "failed"]
        for r in still:
            rep = r.get("replay") or {}
            print(json.dumps({k: rep.get(k) for k in ("confirmed", "how", "initial_state", "inputs_per_cycle", "observed_per_cycle", "detail",
                                                      "exception") if k in rep}, indent=1, default=str)[:3000])
        if still:
            print(f"VIOLATION property={prop} replay={path}" + ("" if any((r.get('replay') or {}).get('confirmed') for r in still) else " no-failing-input-found"))
            return EXIT_VIOLATION
        print(f"clause {clause}: {len(hits)} obligation(s) regenerated for this configuration, all discharged on the current tree")
        return EXIT_OK
    # L1: regenerate everything for the property, look for the recorded obligation
    mod = importlib.import_module(f"vf.props.{prop}")
    run = Run(prop, tier="quick", seed=0, level=getattr(mod, "LEVEL", "other"))
    mod.main(run)
    key = d.get("key", ob)
    still = [v for v in run.violations if v["obligation"].startswith(key) or key.startswith(v["obligation"].rsplit("::", 1)[0])]
    if still:
        print(f"VIOLATION property={prop} replay={still[0]['replay']}" + ("" if still[0]["confirmed"] else " no-failing-input-found"))
        return EXIT_VIOLATION
    print("obligation regenerated from the current source and discharged")
    return EXIT_OK
