"""./check selftest [--tier quick]: regression of the machinery itself.

For every seeded change under seeded/<name>/ (independent sub-agent injections, confirmed to pass the repository's own
tests) and every own mutant in tools/mutants.json, a SCRATCH COPY of /repo's package is made under a temp dir outside /repo
and /verif, the change is applied there, and the quick check of the targeted property is run against the copy
(VERIF_REPO=<copy>).  Expected: exit 1 with a VIOLATION line.  Behaviour-preserving edits must exit 0.
The scratch copy is removed afterwards.  Nothing here touches /repo or the committed evidence."""
import json, os, shutil, subprocess, sys, tempfile, time
from .common import VERIF


def run_case(name, prop, apply_fn, expect_violation):
    d = tempfile.mkdtemp(prefix="selftest_")
    try:
        shutil.copytree("/repo/amaranth_soc", os.path.join(d, "amaranth_soc"))
        ok, why = apply_fn(d)
        if not ok:
            return name, prop, "SKIP", why, 0.0
        env = dict(os.environ, VERIF_REPO=d, VERIF_EVIDENCE_DIR=os.path.join(d, "evidence"), VERIF_REPLAY_DIR=os.path.join(d, "replays"), VERIF_TIER="quick")
        t = time.time()
        p = subprocess.run([os.path.join(VERIF, "check"), prop, "--tier", "quick"], cwd=VERIF, env=env, capture_output=True, text=True)
        dt = time.time() - t
        viol = [l for l in p.stdout.splitlines() if l.startswith("VIOLATION")]
        if expect_violation:
            good = p.returncode == 1 and bool(viol)
        else:
            good = p.returncode == 0 and not viol
        return name, prop, "OK" if good else "MISS" if expect_violation else "FALSE-ALARM", f"exit={p.returncode} violations={len(viol)}", dt
    finally:
        shutil.rmtree(d, ignore_errors=True)


def patch_applier(patch):
    def f(d):
        p = subprocess.run(["patch", "-p1", "--quiet", "-i", patch], cwd=d, capture_output=True, text=True)
        return p.returncode == 0, (p.stdout + p.stderr)[:200]
    return f


def text_applier(file, old, new):
    def f(d):
        path = os.path.join(d, file)
        s = open(path).read()
        if old not in s:
            return False, "pattern not found (source drifted)"
        open(path, "w").write(s.replace(old, new, 1))
        return True, ""
    return f


def main(args):
    cases = []
    sd = os.path.join(VERIF, "seeded")
    for name in sorted(os.listdir(sd)):
        meta = os.path.join(sd, name, "meta.json")
        patch = os.path.join(sd, name, "patch.diff")
        if os.path.exists(meta) and os.path.exists(patch):
            mj_ = json.load(open(meta))
            prop = mj_["property"]
            if mj_.get("not_claimed"):
                # a change that breaks something the property does not state (recorded with the reason): no detection is claimed
                print(f"{'NOT-CLAIMED':12s} {prop} seed:{name} ({mj_['not_claimed']})", flush=True)
                continue
            cases.append((f"seed:{name}", prop, patch_applier(patch), True))
    mj = os.path.join(VERIF, "tools", "mutants.json")
    if os.path.exists(mj):
        for m in json.load(open(mj)):
            cases.append((f"mutant:{m['name']}", m["property"], text_applier(m["file"], m["old"], m["new"]), m.get("breaks", True)))
    only = os.environ.get("SELFTEST_ONLY")
    if only:
        cases = [c for c in cases if only in c[0] or only == c[1]]
    shard = os.environ.get("SELFTEST_SHARD")          # "i/n": every n-th case starting at i (several shards can run side by side)
    if shard:
        i_, n_ = (int(x) for x in shard.split("/"))
        cases = cases[i_::n_]
    bad = 0
    for c in cases:
        name, prop, verdict, why, dt = run_case(*c)
        print(f"{verdict:12s} {prop} {name} ({why}, {dt:.0f}s)", flush=True)
        if verdict in ("MISS", "FALSE-ALARM"):
            bad += 1
    print(f"selftest: {len(cases)} cases, {bad} problems")
    return 0 if bad == 0 else 3
